#!/bin/bash
# tools/regress_parallel.sh [jobs] [ids...]  — every stored mutant (of the listed properties; default all) against the current machinery, <jobs> at a time (default 3);
# writes mutants/regression-all-mutants.log (sorted) and prints the MISSED lines.
cd "$(dirname "$(readlink -f "$0")")/.." || exit 2
jobs=${1:-3}; shift; only="$*"
prop() { case "$1" in C01*) echo C01;; C06*) echo C06;; C14*) echo C14;; C15*) echo C15;; C16*) echo C16;; C18*) echo C18;; esac; }
declare -A RP
eval "$(grep '^declare -A RP=' tools/regress_mutants.sh)"
list=$(mktemp)
for d in seeded/*/; do id=$(basename $d); echo "$(prop $id) $d/patch.diff"; done >> $list
for f in mutants/hand/*.diff; do echo "$(prop $(basename $f)) $f"; done >> $list
for f in mutants/C14/*.diff; do echo "C14 $f"; done >> $list
for f in mutants/revfix/*.diff; do h=$(basename $f | cut -c1-7); echo "${RP[$h]} $f"; done >> $list
out=mutants/regression-all-mutants.log
if [ -n "$only" ]; then grep -E "^($(echo $only | tr ' ' '|')) " $list > $list.f; mv $list.f $list; out=mutants/regression-$(echo $only | tr -d ' ').log; fi
xargs -P $jobs -L 1 tools/sensitivity.sh < $list 2>&1 | cut -c1-260 | sort > $out.tmp
mv $out.tmp $out; rm -f $list
eq=$(grep -v '^#' mutants/equivalent.txt | sed 's/^/ /; s/$/:/' )
grep '^MISSED' $out | grep -F -f <(grep -v '^#' mutants/equivalent.txt) > $out.eq
grep '^MISSED' $out | grep -v -F -f <(grep -v '^#' mutants/equivalent.txt) > $out.missed
echo "detected: $(grep -c '^DETECTED' $out)  missed: $(wc -l < $out.missed)  equivalent / outside the domain (mutants/equivalent.txt): $(wc -l < $out.eq)"
cat $out.missed; rm -f $out.eq $out.missed
