#!/bin/bash
# tools/sensitivity.sh <property> <patch.diff> [runs]  -> prints DETECTED / MISSED
pid=$1; patch=$2; runs=${3:-}
name=$(basename "$patch" .diff | cut -c1-24)
[ "$name" = patch ] && name=$(basename "$(dirname "$patch")")
args="--no-evidence --max-classes 2 --stop-early --deadline 3000"
[ -n "$runs" ] && args="$args --runs $runs"
out=$(tools/mutant.sh "sens-$pid-$name" "$patch" timeout 1500 ./check $pid $args 2>&1)
if echo "$out" | grep -q "^VIOLATION property=$pid"; then
  echo "DETECTED $pid $name: $(echo "$out" | grep -m1 'minimised to' | cut -c1-160)"
else
  echo "MISSED   $pid $name: $(echo "$out" | tail -3 | tr '\n' ' ' | cut -c1-300)"
fi
