#!/bin/bash
# tools/confirm_seeded.sh <worktree> <n> <seeded-id> <pytest paths...>
# Confirms a sub-agent's change in its scratch worktree (demo fails with the patch, passes without, given tests pass with it)
# and installs patch.diff / demo.py / meta.json into /verif/seeded/<seeded-id>/.
wt=$1; n=$2; sid=$3; shift 3; tests="$@"
m=$wt/mutants/$n
[ -f $m/patch.diff ] || { echo "NO PATCH $m"; exit 2; }
cd $wt || exit 2
git checkout -q -- cherab
git apply --check $m/patch.diff || { echo "PATCH DOES NOT APPLY"; exit 2; }
needs_build=$(grep -c '^+++ .*\.p\(yx\|xd\)' $m/patch.diff)
build() { [ "$needs_build" -gt 0 ] && /venv/bin/python setup.py build_ext -j16 --inplace >/dev/null 2>&1; return 0; }
# unpatched: demo must pass
build; timeout 900 /venv/bin/python $m/demo.py >/tmp/confirm-$sid-demo0.out 2>&1; rc0=$?
git apply $m/patch.diff; build
timeout 900 /venv/bin/python $m/demo.py >/tmp/confirm-$sid-demo1.out 2>&1; rc1=$?
trc=skipped
if [ -n "$tests" ]; then timeout 3000 /venv/bin/python -m pytest -q -x -p no:cacheprovider --timeout=900 -n 4 $tests >/tmp/confirm-$sid-tests.out 2>&1; trc=$?; fi
git checkout -q -- cherab; build
echo "confirm $sid: demo unpatched rc=$rc0 patched rc=$rc1 tests rc=$trc ($(tail -1 /tmp/confirm-$sid-tests.out 2>/dev/null))"
if [ $rc0 -eq 0 ] && [ $rc1 -ne 0 ] && { [ "$trc" = "0" ] || [ "$trc" = skipped ]; }; then
  d=/verif/seeded/$sid; mkdir -p $d
  cp $m/patch.diff $d/patch.diff
  sed -e "s#sys.path.insert(0, *['\"]$wt['\"])#sys.path.insert(0, __import__('os').environ.get('VERIF_REPO', '/repo'))#" \
      -e "s#import _use_worktree#import cherab as _c; _c.__path__[:] = [__import__('os').path.join(__import__('os').environ.get('VERIF_REPO', '/repo'), 'cherab')]#" $m/demo.py > $d/demo.py
  cp $m/meta.json $d/meta.agent.json
  echo "INSTALLED $d"
else
  echo "REJECTED $sid"; tail -5 /tmp/confirm-$sid-demo0.out /tmp/confirm-$sid-demo1.out
fi
