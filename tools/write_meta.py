#!/venv/bin/python
"""tools/write_meta.py <seeded-id> <property> <detected-by-class or MISSED> <what I ran>  — writes seeded/<id>/meta.json"""
import json, os, sys
sid, pid, detected, ran = sys.argv[1:5]
d = os.path.join(os.path.dirname(os.path.dirname(os.path.abspath(__file__))), "seeded", sid)
agent = {}
p = os.path.join(d, "meta.agent.json")
if os.path.exists(p):
    try:
        agent = json.load(open(p))
    except Exception:
        agent = {"raw": open(p).read()}
meta = {
    "id": sid,
    "property": pid,
    "origin": "independent sub-agent given only the property text and a scratch worktree" if "agent" in sid else "written by hand",
    "summary": agent.get("summary", ""),
    "needs_to_manifest": agent.get("needs_to_manifest", agent.get("needs", "")),
    "confirmed": "tools/confirm_seeded.sh: demo.py exits 0 on the unpatched scratch worktree and non-zero with patch.diff applied "
                 "(rebuilt when .pyx/.pxd changed); " + ran,
    "agent_tests_run": agent.get("tests_run", ""),
    "check_result": detected,
    "how_to_rerun": "tools/sensitivity.sh %s seeded/%s/patch.diff   (scratch copy of /repo, VERIF_REPO)  or  git -C /repo apply seeded/%s/patch.diff; ./check %s; git -C /repo checkout -- ." % (pid, sid, sid, pid),
}
json.dump(meta, open(os.path.join(d, "meta.json"), "w"), indent=1)
if os.path.exists(p):
    os.unlink(p)
print("meta written", sid)
