#!/bin/bash
# Sensitivity helper (never part of a registered check):
#   tools/mutant.sh <name> <patch.diff> <command...>
# Copies /repo to /var/tmp/vsim-scratch-<name>, applies the patch there, runs the command with
# VERIF_REPO pointing at the copy (the check rebuilds only the touched extension), removes the copy.
set -u
name=$1; patch=$(readlink -f "$2"); shift 2
dir=/var/tmp/vsim-scratch-$name
rm -rf "$dir"
rsync -a --exclude .git /repo/ "$dir"/ || exit 2
trap 'rm -rf "$dir"' EXIT
( cd "$dir" && patch -p1 --no-backup-if-mismatch < "$patch" ) || { echo "PATCH-FAILED"; exit 2; }
VERIF_REPO=$dir "$@"
rc=$?
echo "mutant $name: exit $rc"
exit $rc
