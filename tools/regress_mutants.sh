#!/bin/bash
# Re-runs every stored mutant (reverse fixes, hand-written, seeded) against the current machinery; prints a DETECTED/MISSED table.
cd "$(dirname "$(readlink -f "$0")")/.." || exit 2
prop() { case "$1" in C01*) echo C01;; C06*) echo C06;; C14*) echo C14;; C15*) echo C15;; C16*) echo C16;; C18*) echo C18;; esac; }
for d in seeded/*/; do id=$(basename $d); tools/sensitivity.sh $(prop $id) $d/patch.diff | sed "s#patch.diff#$id#"; done
for f in mutants/hand/*.diff; do tools/sensitivity.sh $(prop $(basename $f)) $f; done
for f in mutants/C14/*.diff; do tools/sensitivity.sh C14 $f; done
declare -A RP=( [eb36c59]=C01 [a79d62c]=C14 [18700df]=C01 [48eacad]=C15 [7ff86e6]=C15 [e6afa78]=C15 [88ba5f5]=C16 [e2351e0]=C01 [ef648eb]=C01 [a88c5e6]=C01 [a916f0a]=C06 [05a33c0]=C06 [7fe8510]=C06 [0442d5b]=C01 [59459d2]=C01 [40bcdf1]=C18 [488fc60]=C18 [773c769]=C18 [bfd080f]=C18 [fd700b6]=C18 [e8548e6]=C15 [eb18a6e]=C06 [3ee2d9d]=C06 [336aab6]=C06 [a958b4a]=C01 [09e54d9]=C01 [030c906]=C01 [676ad5f]=C01 )
for f in mutants/revfix/*.diff; do h=$(basename $f | cut -c1-7); tools/sensitivity.sh ${RP[$h]} $f; done
echo REGRESS-DONE
