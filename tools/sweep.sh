#!/bin/bash
# tools/sweep.sh <tier> <first-seed> <last-seed> [ids…]  : no-false-alarm sweep over VERIF_SEED values
tier=$1; a=$2; b=$3; shift 3
ids=${@:-C01 C06 C14 C15 C16 C18}
cd "$(dirname "$(readlink -f "$0")")/.." || exit 2
/venv/bin/python -m vsim.build >/dev/null || { echo BUILD-FAILED; exit 2; }
bad=0
for s in $(seq $a $b); do
  for id in $ids; do
    out=$(VERIF_SEED=$s timeout 14000 ./check $id --tier $tier --no-build --no-evidence 2>&1); rc=$?
    echo "seed=$s $id rc=$rc $(echo "$out" | grep -E '^vsim: [0-9]+ runs' | cut -c1-150)"
    if [ $rc -ne 0 ]; then bad=1; echo "$out" | grep -E "VIOLATION|HARNESS|KNOWN|minimised" | head -5; fi
  done
done
echo "SWEEP-DONE bad=$bad"
exit $bad
