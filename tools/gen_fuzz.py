#!/venv/bin/python
"""Generates (does not execute) many cases per machine and tier: flushes crashes of the case generators themselves."""
import os, sys, json
sys.path.insert(0, os.path.dirname(os.path.dirname(os.path.abspath(__file__))))
os.environ.setdefault("HOME", "/var/tmp")
from concurrent.futures import ProcessPoolExecutor
from vsim.registry import get_machine, MACHINES
from vsim.supervisor import make_case

def work(a):
    pid, seed, lo, hi, tier = a
    m = get_machine(pid)
    n = 0
    for i in range(lo, hi):
        c = make_case(m, seed, i, tier)
        json.dumps(c)          # cases must be plain JSON
        n += 1
    return n

if __name__ == "__main__":
    N = int(sys.argv[1]) if len(sys.argv) > 1 else 20000
    tasks = []
    for pid in sorted(MACHINES):
        for tier in ("quick", "thorough"):
            for seed in (0, 1, 12345):
                for lo in range(0, N, 2000):
                    tasks.append((pid, seed, lo, min(N, lo + 2000), tier))
    with ProcessPoolExecutor(16) as ex:
        tot = sum(ex.map(work, tasks))
    print("generated", tot, "cases without a generator failure")
