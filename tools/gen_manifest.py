#!/venv/bin/python
"""Regenerates /verif/MANIFEST.json from one table, so it is always schema-valid and consistent."""
import json
import os

HERE = os.path.dirname(os.path.dirname(os.path.abspath(__file__)))

TECH = "deterministic simulation with fault injection: seeded search over operation/fault schedules, "

CLAIMED = {
    "C01": dict(
        text="Exploration: seeded random histories of public mutators, observations, object drops, GC points and "
             "provider/profile faults over a real multi-actor raysect scene; every history is compared with a scene rebuilt "
             "from scratch in the final configuration (rtol 1e-9). Sampling, not proof: depth is bounded by <=60 operations, "
             "<=2 plasmas/2 beams/1 laser per run.",
        ref="DESIGN.md section 3 (C01), 2.2-2.6",
        note="Trusted: raysect scene graph/ray tracer, the value-specification twin builder in vsim/machines/c01_scene.py, "
             "SimAtomicData analytic rates (stub for ADAS data). Differential oracle: defects independent of history are invisible.",
        tech=TECH + "rebuild-from-scratch twin oracle, fork-per-run crash capture, ddmin replay"),
    "C06": dict(
        text="Exploration: seeded histories of add_*/update_*/install_adf*/reject calls of all 13 rate families on an in-memory "
             "simulated file system under the unmodified repository code; after every operation a full audit compares every key "
             "bit for bit with a key->bytes model, never-written keys must raise, and every path created must lie under the passed "
             "root. Storage faults (ENOSPC/EIO at open, n-th write, close; failed/short downloads) run in a separate, narrowly "
             "relaxed configuration.",
        ref="DESIGN.md section 3 (C06)",
        note="Trusted: SimFS (in-memory open/os seam), the dict model, json module. No concurrent writers (property quantifies "
             "over histories, not schedules). Installer content is adopted, not predicted (parser correctness is C08).",
        tech=TECH + "sequential key->bytes reference model audited after every operation, simulated file system with storage faults"),
    "C14": dict(
        text="Exploration: seeded evaluation orders (random/sorted/reverse/clustered/repeated; inside, on nodes, faces, edges, outside) "
             "on Caching1D/2D/3D with call-indexed failures of the wrapped function; each evaluation is compared with the wrapped "
             "function (nodes, multilinear exactness, h^2*curvature bound, outside behaviour), an un-faulted twin cache with a "
             "different history, brand-new caches and a no-bounds cache.",
        ref="DESIGN.md section 3 (C14)",
        note="Trusted: SimFunction analytic families and their derivative bounds; tolerance model for the cache's own power-basis "
             "rounding noise (calibrated on the unchanged tree, 25x margin); K=1 curvature constant (10x margin).",
        tech=TECH + "twin/fresh-cache history-independence oracle plus analytic function oracle, injected failures of the wrapped function"),
    "C15": dict(
        text="Exploration: seeded add/assign/rename/index/reject/observe histories on all seven group classes with the attribute "
             "table discovered by introspection; after every operation group getters, member attributes, parents and a list-of-records "
             "model must agree; wrong-length assignments must raise ValueError and change nothing; observe() must reach each member once.",
        ref="DESIGN.md section 3 (C15)",
        note="Trusted: raysect observers as the holders of member state, the per-attribute value table in the machine, counting pipelines.",
        tech=TECH + "list-of-records reference model checked after every operation"),
    "C16": dict(
        text="Exploration: seeded setter/read/calibrate histories on Spectrometer, CzernyTurnerSpectrometer, Polychromator and filters; "
             "every read is compared with an instrument constructed directly from the current parameters and with the value "
             "specification; range/bin-width invariants and per-pixel integral conservation of calibrate() are checked in every state.",
        ref="DESIGN.md section 3 (C16)",
        note="Trusted: raysect Spectrum.integrate as the definition of the integral; the value specification kept by the machine.",
        tech=TECH + "fresh-instrument twin oracle and per-state invariants"),
    "C18": dict(
        text="Exploration: seeded setter/read histories (valid and rejected values) on the four laser profiles, two laser spectra and a "
             "Laser node; every read is compared with a freshly constructed object and with the value specification; energy "
             "normalisation, segment tiling and per-bin spectral integrals are checked as invariants in every reached state.",
        ref="DESIGN.md section 3 (C18)",
        note="Trusted: fixed tensor-grid quadrature used for the normalisation invariants (rtol 1e-6), math.erf reference for bin integrals.",
        tech=TECH + "fresh-object twin oracle and conservation invariants in every reached state"),
}

NA = {
    "C02": "pure function of one add_line call's arguments (no history, schedule, clock or fault to vary); input sweeps would be property-based testing, not simulation",
    "C03": "point-wise emission is a pure function of the final plasma state and rate tables; its only history-dependent aspect (stale caches) is C01",
    "C04": "beam density field is a pure function of the final beam/plasma configuration; whether it is re-evaluated after changes is C01",
    "C05": "point-wise algebraic identity between BeamModel.emission and rate tables; pure function of arguments and configuration",
    "C07": "OpenADAS provider keeps no state between calls; each accessor is a pure function of (repository content, flags, arguments); missing data is a configuration, not a fault sequence",
    "C08": "ADF parsers are pure functions of the file bytes; the property has no EOF/short-read/corruption clause a stream fault could exercise",
    "C09": "stateless Python functions of (rates, n_e, T_e, n_D): pure",
    "C10": "one ray through one immutable emitter: pure function of (grid, voxel map, step, ray)",
    "C11": "deterministic numerical routines, pure functions of their array arguments",
    "C12": "EFITEquilibrium is immutable after construction; every mapped function is a pure evaluation",
    "C13": "stateless wrappers: pure point-wise composition; edge arguments are an input-domain question, not a schedule",
    "C17": "geometry of one polygon: pure (the Monte-Carlo mean is a statistical estimate over inputs, not a history or fault property)",
    "C19": "finite static table built at import: exhaustive enumeration settles it, there is no state, order or fault",
    "C20": "matrix construction is a pure function of (grid, flux map, anisotropy)",
}

PENDING = "claimed in DESIGN.md; machine under construction in this commit, no check registered yet"


def main():
    built = [pid for pid in sorted(CLAIMED)
             if os.path.exists(os.path.join(HERE, "vsim", "machines")) and any(
                 f.startswith(pid.lower() + "_") for f in os.listdir(os.path.join(HERE, "vsim", "machines")))]
    checks = []
    for pid in built:
        c = CLAIMED[pid]
        checks.append({
            "property_id": pid,
            "quick_cmd": "./check %s --tier quick" % pid,
            "thorough_cmd": "./check %s --tier thorough" % pid,
            "evidence_file": "/verif/evidence/%s.json" % pid,
            "replay_cmd_template": "./check %s --replay {path}" % pid,
            "engine": "vsim",
            "level_claimed": {"category": "exploration", "text": c["text"], "design_ref": c["ref"]},
            "level_note": c["note"],
            "technique": c["tech"],
        })
    na = [{"property_id": k, "reason": v} for k, v in sorted(NA.items())]
    for pid in sorted(CLAIMED):
        if pid not in built:
            na.append({"property_id": pid, "reason": PENDING})
    na.sort(key=lambda d: d["property_id"])
    m = {
        "version": 1,
        "setup_cmd": "cd /verif && /venv/bin/python -m vsim.build && /venv/bin/python -m vsim.selftest determinism --n 40",
        "hooks": {
            "guard": "CHERAB_CORE_VERIF",
            "enable": "no hook is needed: every seam is installed from /verif by subclassing or by rebinding module globals "
                      "(open/os in cherab.openadas.repository.*); checks rebuild /repo in place with "
                      "`/venv/bin/python setup.py build_ext -j16 --inplace`",
            "baseline_off_cmd": "cd /repo && /venv/bin/python setup.py build_ext -j16 --inplace >/dev/null 2>&1; "
                                "cd /repo && /venv/bin/python -m pytest -ra -q -p no:cacheprovider --timeout=900 "
                                "--continue-on-collection-errors",
            "source_commits": [],
            "add_only": True,
        },
        "engines": [{
            "name": "vsim",
            "path": "/verif/vsim",
            "serves_properties": built,
            "kind_free_text": "custom deterministic simulator: one VERIF_SEED decides swarm configuration, operation list and fault "
                              "plan of every run; fork-per-run with write-ahead journal (interpreter crashes are replayable outcomes); "
                              "ddmin shrinker; replay files; seams for object lifetime (gc), atomic-data provider, profile functions, "
                              "file system, downloader, raysect PRNG and render engine",
        }],
        "checks": checks,
        "not_applicable": na,
        "notes": "Exit codes: 0 held, 1 VIOLATION (replay verified in a fresh interpreter), 2 build/harness error (never a VIOLATION). "
                 "VERIF_SEED selects the batch; VERIF_REPO=<dir> points the checks at a scratch copy (sensitivity mutants only).",
    }
    with open(os.path.join(HERE, "MANIFEST.json"), "w") as f:
        json.dump(m, f, indent=1)
        f.write("\n")
    print("MANIFEST.json: %d checks, %d not_applicable" % (len(checks), len(na)))


if __name__ == "__main__":
    main()
