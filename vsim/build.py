"""Rebuild the repository's Cython extensions in place from the current working tree.

setuptools decides staleness by mtime; an edit that keeps or lowers the mtime (git
checkout, patch -p1 with preserved times) would be missed.  We therefore keep a
content-hash manifest of every .pyx/.pxd under <repo>/cherab in the git-ignored
<repo>/build directory and touch any source whose hash changed.
"""

import fcntl
import hashlib
import json
import os
import subprocess
import sys
import time

PY = "/venv/bin/python"


def repo_path():
    return os.path.abspath(os.environ.get("VERIF_REPO", "/repo"))


def _hash_sources(repo):
    out = {}
    root = os.path.join(repo, "cherab")
    for d, _dirs, files in os.walk(root):
        for f in files:
            if f.endswith((".pyx", ".pxd")):
                p = os.path.join(d, f)
                with open(p, "rb") as fh:
                    out[os.path.relpath(p, repo)] = hashlib.sha1(fh.read()).hexdigest()
    return out


def ensure_built(repo=None, verbose=False):
    """Returns (ok, log).  Holds an exclusive flock for the duration of the build."""
    repo = repo or repo_path()
    bdir = os.path.join(repo, "build")
    os.makedirs(bdir, exist_ok=True)
    lock = open(os.path.join(bdir, ".vsim-build.lock"), "w")
    fcntl.flock(lock, fcntl.LOCK_EX)
    try:
        manifest_path = os.path.join(bdir, ".vsim-hashes.json")
        try:
            with open(manifest_path) as f:
                old = json.load(f)
        except Exception:
            old = {}
        new = _hash_sources(repo)
        now = time.time()
        touched = []
        for rel, h in new.items():
            if old.get(rel) != h:
                p = os.path.join(repo, rel)
                os.utime(p, (now, now))
                touched.append(rel)
        # a removed .so (fresh clone) is handled by build_ext itself
        env = dict(os.environ)
        env.setdefault("CHERAB_NCPU", "16")
        env.pop("PYTHONHASHSEED", None)
        p = subprocess.run([PY, "setup.py", "build_ext", "-j16", "--inplace"], cwd=repo, env=env,
                           stdout=subprocess.PIPE, stderr=subprocess.STDOUT, text=True)
        ok = p.returncode == 0
        if ok:
            # every .pyx must have its extension module next to it
            missing = []
            for rel in new:
                if rel.endswith(".pyx"):
                    base = os.path.join(repo, rel[:-4])
                    d, stem = os.path.split(base)
                    if not any(f.startswith(stem + ".") and f.endswith(".so") for f in os.listdir(d)):
                        missing.append(rel)
            if missing:
                ok = False
                p_stdout = p.stdout + "\nmissing extension modules: %s" % missing
            else:
                p_stdout = p.stdout
                with open(manifest_path, "w") as f:
                    json.dump(new, f)
        else:
            p_stdout = p.stdout
        if verbose:
            sys.stderr.write(p_stdout[-4000:])
        return ok, p_stdout, touched
    finally:
        fcntl.flock(lock, fcntl.LOCK_UN)
        lock.close()


def point_imports_at(repo=None):
    """Make ``import cherab`` resolve to <repo>/cherab (VERIF_REPO override for scratch mutants)."""
    repo = repo or repo_path()
    if os.path.abspath(repo) == "/repo":
        return
    import cherab
    cherab.__path__[:] = [os.path.join(repo, "cherab")]
    for k in [k for k in sys.modules if k.startswith("cherab.")]:
        del sys.modules[k]


if __name__ == "__main__":
    ok, log, touched = ensure_built(verbose=True)
    print("BUILD", "ok" if ok else "FAILED", "touched=%d" % len(touched))
    sys.exit(0 if ok else 2)
