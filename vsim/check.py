"""Command-line entry point:  python -m vsim.check <id> [--tier quick|thorough] [--replay f]

exit 0  property held on everything explored (KNOWN-FINDING lines possible)
exit 1  VIOLATION property=<id> replay=<path>   (replay verified in a fresh interpreter)
exit 2  BUILD-ERROR / HARNESS-ERROR / budget not reached — never a VIOLATION
"""

import argparse
import atexit
import hashlib
import json
import os
import shutil
import subprocess
import sys
import tempfile
import time

HERE = os.path.dirname(os.path.dirname(os.path.abspath(__file__)))
PY = "/venv/bin/python"


def _reexec_if_needed():
    if os.environ.get("VSIM_REEXEC") == "1":
        return
    env = dict(os.environ)
    env["VSIM_REEXEC"] = "1"
    env.setdefault("PYTHONHASHSEED", "0")
    env["OMP_NUM_THREADS"] = "1"
    env["OPENBLAS_NUM_THREADS"] = "1"
    env["MKL_NUM_THREADS"] = "1"
    env["PYTHONDONTWRITEBYTECODE"] = "1"
    env["PYTHONPATH"] = HERE + (os.pathsep + env["PYTHONPATH"] if env.get("PYTHONPATH") else "")
    os.execve(PY, [PY, "-m", "vsim.check"] + sys.argv[1:], env)


def _scratch_home():
    d = tempfile.mkdtemp(prefix="vsim-home-", dir="/var/tmp")
    os.environ["HOME"] = d
    atexit.register(shutil.rmtree, d, True)
    return d


def load_known():
    p = os.path.join(HERE, "known_findings.json")
    if not os.path.exists(p):
        return []
    with open(p) as f:
        return json.load(f).get("findings", [])


def match_known(pid, case, klass, known):
    kinds = {op["op"] for op in case["ops"]}
    for k in known:
        if k.get("property") != pid or k.get("status") != "open":
            continue
        m = k.get("match")
        if not m:
            continue        # demonstrated by its committed probe only: it never absorbs a violation found by the search
        if m.get("clause") is not None and m["clause"] != klass[0]:
            continue
        if m.get("channel") is not None and m["channel"] != klass[1]:
            continue
        need = m.get("ops_include")
        if need is not None and not set(need) <= kinds:
            continue
        sub = m.get("ops_subset")
        if sub is not None and not kinds <= set(sub):
            continue
        return k
    return None


def write_evidence(machine, tier, seed, merged, nplanned, violations, known_lines, wall):
    stats = merged["stats"]
    counts = stats.counts
    faults = {}
    for k, v in sorted(counts.items()):
        if k.startswith("fault."):
            _, what, kind = k.split(".", 2)
            faults.setdefault(kind, {"armed": 0, "fired": 0})[what] = v
    ops = {}
    for k, v in sorted(counts.items()):
        if k.startswith("op|"):
            _, kind, outcome = k.split("|", 2)
            ops.setdefault(kind, {})[outcome] = v
    probes = {k[6:]: v for k, v in sorted(counts.items()) if k.startswith("probe.")}
    other = {k: v for k, v in sorted(counts.items())
             if not k.startswith(("fault.", "op|", "probe."))}
    runs = merged["runs"]
    ev = {
        "property_id": machine.pid,
        "tier": tier,
        "seed": seed,
        "level": "exploration",
        "coverage": {
            "evaluations": runs,
            "distinct_nontrivial": len(merged["inter_nt"]),
            "distinct_interleavings": len(merged["inter"]),
            "rule": machine.rule,
            "samples": merged["samples"][:3],
            "states": len(merged["states"]),
            "transitions": len(merged["transitions"]),
            "runs_planned": nplanned,
            "runs_skipped_by_deadline": merged["skipped"],
            "operations_executed": merged["steps"],
            "simulated_time": "%d logical steps (the code under test has no clock; "
                              "simulated time = operations executed)" % merged["steps"],
            "runs_per_hour": int(runs / wall * 3600) if wall > 0 else 0,
            "seeds": "run i uses splitmix64(VERIF_SEED=%d, '%s', i), i in [0, %d)" % (
                seed, machine.pid, nplanned),
            "faults": faults,
            "operations": ops,
            "probes": probes,
            "other_counters": other,
            "set_sizes": {k: len(v) for k, v in sorted(stats.sets.items())},
            "sets": {k: sorted(v)[:600] for k, v in sorted(stats.sets.items())},
            "components_real": machine.components_real,
            "components_stub": machine.components_stub,
            "known_findings_reported": known_lines,
            "exhaustive": False,
        },
        "assumptions": machine.assumptions,
        "wall_s": round(wall, 3),
        "violations": violations,
    }
    os.makedirs(os.path.join(HERE, "evidence"), exist_ok=True)
    path = os.path.join(HERE, "evidence", machine.pid + ".json")
    tmp = path + ".tmp"
    with open(tmp, "w") as f:
        json.dump(ev, f, indent=1, sort_keys=True)
        f.write("\n")
    os.replace(tmp, path)
    return path


def verify_replay_fresh(pid, path):
    """Re-execute a replay file in a fresh interpreter; True iff it reproduces."""
    env = dict(os.environ)
    p = subprocess.run([PY, "-m", "vsim.check", pid, "--replay", path, "--no-build", "--quiet"],
                       cwd=HERE, env=env, stdout=subprocess.PIPE, stderr=subprocess.STDOUT, text=True)
    return p.returncode == 1 and "VIOLATION property=%s" % pid in p.stdout, p.stdout


def do_replay(machine, path, quiet):
    from .core import load_case
    from .supervisor import run_forked
    case = load_case(path)
    res = run_forked(machine, case, quiet=quiet)
    exp = case.get("expected_class")
    if res.get("status") == "violation":
        same = (exp is None) or (res["class"] == exp)
        print("replay: violation class=%s step=%s %s" % (res["class"], res.get("step"),
                                                          res.get("detail", "")[:2000]))
        if exp is not None and not same:
            print("replay: NOTE expected class %s" % exp)
        if exp is None or same:
            if case.get("first_bad_step") is not None and res.get("step") != case["first_bad_step"]:
                print("replay: NOTE step differs from recorded %s" % case["first_bad_step"])
            print("VIOLATION property=%s replay=%s" % (machine.pid, path))
            return 1
        print("VIOLATION property=%s replay=%s" % (machine.pid, path))
        return 1
    if res.get("status") == "pass":
        print("replay: no violation (digest %s)" % res["digest"])
        return 0
    print("HARNESS-ERROR during replay:\n%s" % res.get("detail"))
    return 2


def main():
    _reexec_if_needed()
    ap = argparse.ArgumentParser()
    ap.add_argument("pid")
    ap.add_argument("--tier", default=os.environ.get("VERIF_TIER", "quick"), choices=["quick", "thorough"])
    ap.add_argument("--replay")
    ap.add_argument("--runs", type=int)
    ap.add_argument("--first", type=int, default=0)
    ap.add_argument("--workers", type=int, default=int(os.environ.get("VSIM_WORKERS", "16")))
    ap.add_argument("--no-build", action="store_true")
    ap.add_argument("--quiet", action="store_true")
    ap.add_argument("--no-evidence", action="store_true")
    ap.add_argument("--deadline", type=float)
    ap.add_argument("--max-classes", type=int, default=4)
    ap.add_argument("--dump-digests")
    ap.add_argument("--stop-early", action="store_true",
                    help="sensitivity runs only: stop scheduling new chunks after the first chunk that reports a violation")
    args = ap.parse_args()
    seed = int(os.environ.get("VERIF_SEED", "0"))
    t_start = time.time()
    _scratch_home()

    from .build import ensure_built, repo_path
    if not args.no_build:
        ok, log, touched = ensure_built()
        if not ok:
            print("BUILD-ERROR: in-place build of %s failed\n%s" % (repo_path(), log[-3000:]))
            return 2

    from .registry import get_machine
    try:
        machine = get_machine(args.pid)
    except Exception as e:
        import traceback
        print("HARNESS-ERROR: cannot load machine %s\n%s" % (args.pid, traceback.format_exc()))
        return 2

    if args.replay:
        return do_replay(machine, args.replay, args.quiet)

    from .supervisor import run_batch
    from .shrink import shrink
    from .core import dump_case

    nruns = args.runs or (machine.quick_runs if args.tier == "quick" else machine.thorough_runs)
    deadline = args.deadline or (machine.quick_deadline if args.tier == "quick" else machine.thorough_deadline)
    print("vsim: property=%s tier=%s VERIF_SEED=%d runs=%d workers=%d repo=%s" % (
        machine.pid, args.tier, seed, nruns, args.workers, repo_path()))
    sys.stdout.flush()
    try:
        merged = run_batch(args.pid, seed, args.tier, nruns, workers=args.workers, deadline_s=deadline,
                           first_index=args.first, stop_on_violation=args.stop_early)
    except BaseException:
        import traceback
        print("HARNESS-ERROR: the batch supervisor or a case generator failed\n%s" % traceback.format_exc()[-3000:])
        return 2
    wall = time.time() - t_start
    if args.dump_digests:
        with open(args.dump_digests, "w") as f:
            json.dump({"digests": merged["digests"],
                       "violations": [[v["index"], v["result"]["class"], v["result"].get("step")]
                                      for v in merged["violations"]],
                       "harness": len(merged["harness"])}, f)

    rc = 0
    if merged["harness"]:
        h = merged["harness"][0]
        print("HARNESS-ERROR: %d run(s); first: index=%d seed=%d\n%s" % (
            len(merged["harness"]), h["index"], h["seed"], h["detail"][-3000:]))
        rc = 2

    known = load_known()
    known_lines = []
    # Open findings are demonstrated by committed replay files (known/<file>.json).  The seeded search never generates their
    # trigger (so a known finding cannot mask another violation); each probe is re-executed here and the KNOWN-FINDING line is
    # printed exactly when the recorded violation class still reproduces.  Nothing is ever added at run time.
    from .core import load_case
    from .supervisor import run_forked
    for k in known:
        if k.get("property") != machine.pid or k.get("status") != "open" or not k.get("probe"):
            continue
        ppath = os.path.join(HERE, k["probe"])
        try:
            pcase = load_case(ppath)
            pres = run_forked(machine, pcase)
        except Exception as e:
            print("HARNESS-ERROR: cannot execute known-finding probe %s: %s" % (ppath, e))
            rc = 2
            continue
        if pres.get("status") == "violation" and pres.get("class") == k.get("class"):
            line = "KNOWN-FINDING: property=%s %s [%s] replay=%s" % (machine.pid, k["what"], k.get("id", ""), ppath)
            print(line)
            known_lines.append(line)
        elif pres.get("status") == "violation":
            print("vsim: known-finding probe %s now fails differently: class=%s (recorded %s) -- treated as a new violation" % (
                k["probe"], pres.get("class"), k.get("class")))
            print("VIOLATION property=%s replay=%s" % (machine.pid, ppath))
            rc = 1
        elif pres.get("status") == "pass":
            print("vsim: known finding [%s] no longer reproduces (probe %s passes)" % (k.get("id", ""), k["probe"]))
        else:
            print("HARNESS-ERROR: known-finding probe %s: %s" % (ppath, pres.get("detail", "")[-1500:]))
            rc = 2
    nviol_reported = 0
    seen_classes = []
    for v in merged["violations"]:
        klass = v["result"]["class"]
        if klass in seen_classes:
            continue
        if len(seen_classes) >= args.max_classes:
            break
        seen_classes.append(klass)
        case = v["case"]
        print("vsim: run index=%d seed=%d violated class=%s at step %s; shrinking (%d ops)…" % (
            v["index"], case["seed"], klass, v["result"].get("step"), len(case["ops"])))
        sys.stdout.flush()
        small, res, tried = shrink(machine, case, klass)
        if res is None:
            print("HARNESS-ERROR: violation of run %d did not reproduce when re-executed "
                  "(non-determinism)" % v["index"])
            rc = 2
            continue
        small["expected_class"] = klass
        small["first_bad_step"] = res.get("step")
        small["detail"] = res.get("detail", "")
        small["shrink_candidates"] = tried
        small["original_ops"] = len(case["ops"])
        k = match_known(machine.pid, small, klass, known)
        os.makedirs(os.path.join(HERE, "replays"), exist_ok=True)
        # content-addressed name: two checks of one property running side by side (sensitivity runs) never share a file
        tag = hashlib.sha1(json.dumps([small["config"], small["ops"], klass], sort_keys=True).encode()).hexdigest()[:8]
        path = os.path.join(HERE, "replays", "%s-%d-%s.json" % (machine.pid, case["seed"], tag))
        dump_case(small, path)
        ok, out = verify_replay_fresh(machine.pid, path)
        if not ok:
            print("HARNESS-ERROR: minimised replay %s did not reproduce in a fresh interpreter\n%s" % (
                path, out[-2000:]))
            rc = 2
            continue
        if k is not None:
            line = "KNOWN-FINDING: property=%s %s [%s] replay=%s" % (machine.pid, k["what"], k.get("id", ""), path)
            print(line)
            known_lines.append(line)
            continue
        print("vsim: minimised to %d ops after %d candidates: class=%s step=%s\n      %s" % (
            len(small["ops"]), tried, klass, res.get("step"), res.get("detail", "")[:1500]))
        print("VIOLATION property=%s replay=%s" % (machine.pid, path))
        nviol_reported += 1
        rc = 1        # a verified violation outranks harness errors seen in other runs of the batch

    executed = merged["runs"]
    if executed * 2 < nruns and rc == 0:
        print("HARNESS-ERROR: only %d of %d planned runs executed before the wall deadline" % (executed, nruns))
        rc = 2

    if not args.no_evidence:
        path = write_evidence(machine, args.tier, seed, merged, nruns, nviol_reported, known_lines,
                              time.time() - t_start)
    c = merged["stats"].counts
    fired = {k[12:]: v for k, v in c.items() if k.startswith("fault.fired.")}
    print("vsim: %d runs, %d ops, %d distinct interleavings (%d non-trivial), %d states, %d transitions, "
          "faults fired %s, %.1fs" % (executed, merged["steps"], len(merged["inter"]), len(merged["inter_nt"]),
                                      len(merged["states"]), len(merged["transitions"]), fired,
                                      time.time() - t_start))
    if rc == 0:
        print("OK property=%s held on everything explored" % machine.pid)
    return rc


if __name__ == "__main__":
    try:
        rc = main()
    except SystemExit:
        raise
    except BaseException:
        import traceback
        print("HARNESS-ERROR: uncaught exception in the check driver\n%s" % traceback.format_exc()[-3000:])
        rc = 2
    sys.exit(rc)
