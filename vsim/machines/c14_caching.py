"""C14 — caching functions are history-independent and interpolate the cached function.

System under test (real): cherab.core.math.caching.Caching1D/2D/3D.
Stub: the wrapped function (SimFunction with call counter and fault plan).

Schedule = the order and placement of evaluation points; faults = the k-th call of the
wrapped function raises (once).  Oracles: an un-faulted twin cache with another history,
brand-new caches, and the wrapped function itself (nodes, multilinear exactness,
h^2 * curvature bound, outside-the-area behaviour, function_boundaries neutrality).
"""

import math

import numpy as np
from cherab.core.math.caching import Caching1D, Caching2D, Caching3D

from ..core import Violation, close
from ..machine import Machine
from ..seams.simfunc import SimFunction, SimFault, SimInterrupt, random_spec

EPS = 1.e-7
K_BOUND = 1.0          # |cache - f| <= K * sum_ij H_i H_j max|d2f/dxi dxj| ; calibrated, see DESIGN
RTOL = 1e-9
NOISE_FLOOR = {1: 0.0, 2: 1e-8, 3: 1e-6}


def node_layout(lo, hi, res):
    n = max(int((hi - lo) / res) + 1, 2)
    return np.concatenate((np.array([lo - res]), np.linspace(lo - EPS, hi + EPS, n), np.array([hi + res])))


def conditioning(area, res):
    """Noise allowance (relative to the function range) for comparisons with the wrapped function.

    Measured on the unchanged tree over 6000 runs: |cache(node) - f(node)| / range <= 40 * eps * kappa with
    kappa = prod_i (1 + max|x_i| / h_i)^3 (power-basis cancellation); we allow 1000 * eps * kappa.
    """
    k = 1.0
    for a, r in zip(area, res):
        nd = node_layout(a[0], a[1], r)
        h = float(nd[2] - nd[1])
        k *= (1.0 + max(abs(a[0]), abs(a[1])) / h) ** 3
    return 1000.0 * 2.220446049250313e-16 * k


class Ctx:
    pass


class CachingMachine(Machine):
    pid = "C14"
    title = "Caching functions are history-independent and interpolate the cached function"
    quick_runs = 16000
    thorough_runs = 500000
    per_run_timeout = 60
    components_real = ["cherab.core.math.caching.Caching1D/2D/3D (compiled)", "cherab.core.math.interpolators.utility",
                       "cherab.core.math.function autowrap", "numpy.linalg.solve"]
    components_stub = ["wrapped function: SimFunction (analytic, call counter, call-indexed failures)"]
    assumptions = [
        "wrapped functions are finite-valued (no NaN); caching areas lie within |x| <= 6 with 1..12 cells per axis",
        "points inside the +-1e-7 skin around the caching area are never sampled (property is silent there)",
        "curvature-bound constant K=%g (>= 10x the worst ratio measured on the unchanged tree)" % K_BOUND,
        "comparisons use rtol 1e-9 * scale of the function over the sampled box; outside-area pass-through is compared bit for bit",
    ]
    rule = ("cases = seeded (cache configuration, evaluation/check/fault op list); interleaving abstraction = sequence of "
            "(op kind, point class, cell warm|cold, raised?) with coordinates erased; non-trivial iff some evaluation hits a "
            "cell filled earlier, or fills a cell next to an already filled one (shared node samples), or follows a fired fault")

    # ------------------------------------------------------------------ generation
    def generate(self, rng, tier):
        dim = rng.choices([1, 2, 3], weights=[35, 45, 20])[0]
        maxcells = {1: 12, 2: 10, 3: 5}[dim]
        for attempt in range(200):
            area, res = [], []
            for _ in range(dim):
                extent = round(rng.uniform(0.5, 4.0), 3)
                lo = round(rng.uniform(-4.0, 4.0 - extent), 3) if attempt < 100 else round(-extent * rng.uniform(0.3, 0.7), 3)
                hi = round(lo + extent, 3)
                cells = rng.randint(1, maxcells if attempt < 100 else 3)
                r = (hi - lo) / cells * rng.choice([1.0, 1.0, 0.97, 1.02])
                if rng.random() < 0.08:
                    r = (hi - lo) * rng.uniform(1.0, 1.5)       # coarser than the area: one cell
                r = round(r, 6)
                if rng.random() < 0.07:
                    # grid aligned with the coordinate origin: the lower padding node (min - resolution) is exactly 0
                    lo, hi = r, round(r + extent, 6)
                area.append([lo, hi])
                res.append(r)
            # the cache stores each cell's cubic in the power basis about the origin, so its own rounding
            # noise grows like eps * prod_i (1 + |x_i|/h_i)^3; keep configurations in which that noise
            # model stays below 1e-5 of the function range (see conditioning())
            if conditioning(area, res) <= 1e-5:
                break
        family = rng.choices(["multilinear", "poly", "sines"], weights=[30, 30, 40])[0]
        func = random_spec(rng, dim, family)
        # swarm: the whole problem on a stretched coordinate axis (areas of 1e3 ... 1e10 units: wavelengths in pm, densities);
        # conditioning, curvature * h^2 and every relative tolerance are invariant under it, absolute constants in the code are not
        yscale = rng.choice([1.0] * 9 + [1e-35, 1e-12, 1e25])
        if yscale != 1.0:
            func["yscale"] = yscale
        xscale = rng.choice([1.0] * 9 + [1e3, 1e6, 1e10])
        if xscale != 1.0:
            area = [[a[0] * xscale, a[1] * xscale] for a in area]
            res = [r * xscale for r in res]
            func["xscale"] = xscale
        fbmode = rng.choices(["none", "true", "loose", "degenerate"], weights=[45, 25, 20, 10])[0]
        # the wrapped function is itself a cache (of the same class) on another, wider grid: for multilinear functions it
        # reproduces f exactly and every clause applies; otherwise the oracle is the inner cache itself (node equality,
        # pass-through and history independence; the curvature clause is stated for smooth functions and is skipped)
        nested = rng.random() < (0.2 if family == "multilinear" else 0.08)
        config = {"dim": dim, "area": area, "res": res, "nbe": rng.random() < 0.4, "fbmode": fbmode, "nested": nested,
                  "func": func, "faults": rng.random() < 0.45,
                  "fault_kind": rng.choice(["error", "interrupt"])}
        if family == "multilinear" and not nested and all(not t["axes"] for t in func["terms"]) and rng.random() < 0.5:
            config["as_number"] = True          # the constant is handed over as a plain Python float, not as a callable
        nodes = [node_layout(a[0], a[1], r) for a, r in zip(area, res)]
        nops = rng.randint(4, 60 if tier == "quick" else 80)
        order = rng.choice(["random", "random", "sorted", "reverse", "clustered", "repeat"])
        pts = []
        for _ in range(nops):
            pts.append(self._point(rng, area, nodes, res))
        if order == "sorted":
            pts.sort(key=lambda t: t[1])
        elif order == "reverse":
            pts.sort(key=lambda t: t[1], reverse=True)
        elif order == "clustered":
            c = pts[0][1]
            pts.sort(key=lambda t: sum((a - b) ** 2 for a, b in zip(t[1], c)))
        elif order == "repeat":
            pts = (pts[: max(2, nops // 3)] * 3)[:nops]
        if rng.random() < 0.3:
            # leave the area along one axis and come straight back to the same point (and variants sharing coordinates)
            extra = []
            for _ in range(rng.randint(1, 4)):
                kind0, p0 = self._point(rng, area, nodes, res, inside_only=True)
                ax = rng.randrange(dim)
                a = area[ax]
                pout = list(p0)
                pout[ax] = rng.choice([a[0] - 0.3 * (a[1] - a[0]) - 0.01, a[1] + 0.3 * (a[1] - a[0]) + 0.01])
                extra += [(kind0, p0), ("outside", pout), (kind0, list(p0))]
                if dim > 1:
                    ax2 = (ax + 1) % dim
                    pmix = list(pout)
                    pmix[ax] = p0[ax]
                    pmix[ax2] = rng.uniform(area[ax2][0], area[ax2][1])
                    extra.append(("inside", pmix))
            k = rng.randrange(len(pts) + 1)
            pts = pts[:k] + extra + pts[k:]
        ops = []
        for kind, p in pts:
            u = rng.random()
            if config["faults"] and u < 0.12:
                ops.append({"op": "fault", "after": rng.choice([0, 0, 1, 2, 3, 5, 9, 17, 40]),
                            "kind": config["fault_kind"]})
            u = rng.random()
            if u < 0.55:
                ops.append({"op": "eval", "p": p, "pk": kind})
            elif u < 0.9:
                ops.append({"op": "check", "p": p, "pk": kind, "fresh": rng.random() < 0.3, "decoy": rng.random() < 0.3})
            else:
                ops.append({"op": "evalnb", "p": p, "pk": kind})
        config["final"] = [self._point(rng, area, nodes, res, inside_only=True)[1] for _ in range(12)]
        return {"config": config, "ops": ops}

    def _point(self, rng, area, nodes, res, inside_only=False):
        dim = len(area)
        u = rng.random()
        if inside_only:
            u = u * 0.8
        p = []
        if u < 0.5:
            kind = "inside"
            for a in area:
                p.append(rng.uniform(a[0], a[1]))
        elif u < 0.7:
            kind = "node"
            for a, nd in zip(area, nodes):
                # interior sampling nodes only (first/last lie in the skin)
                if len(nd) > 4:
                    p.append(float(nd[rng.randint(2, len(nd) - 3)]))
                else:
                    p.append(rng.uniform(a[0], a[1]))
                    kind = "inside"
            if dim > 1 and rng.random() < 0.4:
                # on a node in some axes only: on a cell face
                ax = rng.randrange(dim)
                p[ax] = rng.uniform(area[ax][0], area[ax][1])
                kind = "face"
        elif u < 0.8:
            kind = "edge"
            for a in area:
                p.append(rng.choice([a[0], a[1], rng.uniform(a[0], a[1])]))
            ax = rng.randrange(dim)
            p[ax] = rng.choice(area[ax])
        else:
            kind = "outside"
            for a in area:
                p.append(rng.uniform(a[0], a[1]))
            for ax in rng.sample(range(dim), rng.randint(1, dim)):
                a = area[ax]
                d = max(1e-6 * (a[1] - a[0]), 1e-6) * rng.choice([1.0, 10.0, 1e3, 1e5]) + rng.choice([0.0, res[ax], 2 * res[ax]])
                p[ax] = a[0] - d if rng.random() < 0.5 else a[1] + d
        return kind, [float(v) for v in p]

    # ------------------------------------------------------------------ execution
    def _inner(self, cfg, func):
        """The function handed to a cache: either the SimFunction itself or another cache around it on a different, wider grid
        with no_boundary_error (so it is defined wherever the outer cache samples)."""
        if cfg.get("as_number"):
            return float(func.value(*[0.0] * cfg["dim"]))
        if not cfg.get("nested"):
            return func
        dim = cfg["dim"]
        area = tuple(v for a, r in zip(cfg["area"], cfg["res"]) for v in (a[0] - 2.5 * r - 0.3, a[1] + 2.5 * r + 0.3))
        res = [r * 0.61 for r in cfg["res"]]
        if dim == 1:
            return Caching1D(func, area, res[0], no_boundary_error=True)
        cls = Caching2D if dim == 2 else Caching3D
        return cls(func, area, tuple(res), no_boundary_error=True)

    def _make_cache(self, cfg, func, fb="cfg"):
        func = self._inner(cfg, func)
        dim = cfg["dim"]
        if fb == "cfg":
            fb = self._fb(cfg)
        area = tuple(v for a in cfg["area"] for v in a)
        if dim == 1:
            return Caching1D(func, area, cfg["res"][0], no_boundary_error=cfg["nbe"], function_boundaries=fb)
        cls = Caching2D if dim == 2 else Caching3D
        return cls(func, area, tuple(cfg["res"]), no_boundary_error=cfg["nbe"], function_boundaries=fb)

    def _fb(self, cfg):
        mode = cfg["fbmode"]
        if mode == "none":
            return None
        b = self._bound(cfg)
        if mode == "true":
            return (-b, b)
        if mode == "loose":
            ys = float(cfg["func"].get("yscale", 1.0))
            return (-1000.0 * b - 7.0 * ys, 1000.0 * b + 3.0 * ys)
        return (0.25 * b, 0.25 * b)

    def _box(self, cfg):
        return [(a[0] - r - EPS, a[1] + r + EPS) for a, r in zip(cfg["area"], cfg["res"])]

    def _bound(self, cfg):
        f = SimFunction(cfg["dim"], cfg["func"])
        return max(1.0 * f.ys, f.abs_bound(self._box(cfg)))

    def start(self, cfg, env):
        c = Ctx()
        c.cfg = cfg
        c.dim = cfg["dim"]
        c.f = SimFunction(c.dim, cfg["func"])
        c.f.log = []
        c.subject = self._make_cache(cfg, c.f)
        c.ftwin = SimFunction(c.dim, cfg["func"])
        c.twin = self._make_cache(cfg, c.ftwin)
        c.nb = None
        c.ref = SimFunction(c.dim, cfg["func"])       # the oracle function, never handed to a cache
        box = self._box(cfg)
        c.scale = max(1.0 * c.ref.ys, c.ref.abs_bound(box))
        fb = self._fb(cfg)
        c.range = max(c.scale, abs(fb[1] - fb[0]) if fb else 0.0)
        # comparisons with the wrapped function: power-basis model + a per-dimension floor for the rounding noise of the
        # 4^d x 4^d linear solve (worst seen in 700k thorough runs: 3e-13 / 6e-10 / 1.5e-8 of the range in 1-/2-/3-D)
        c.tol_f = (RTOL + NOISE_FLOOR[c.dim] + min(conditioning(cfg["area"], cfg["res"]), 1e-4)) * c.range
        c.nodes = [node_layout(a[0], a[1], r) for a, r in zip(cfg["area"], cfg["res"])]
        H = []
        for nd, r in zip(c.nodes, cfg["res"]):
            h = float(nd[2] - nd[1])
            H.append(max(h, r))
        c.curv = sum(H[i] * H[j] * c.ref.second_derivative_bound(box, i, j) for i in range(c.dim) for j in range(c.dim))
        c.exact = cfg["func"]["family"] == "multilinear"
        c.inner_ref = None
        if cfg.get("nested") and not c.exact:
            c.inner_ref = self._inner(cfg, SimFunction(c.dim, cfg["func"]))       # a private copy of the wrapped cache
        c.failed_cells = set()
        c.fired = 0
        c.sampled = set()
        c.siblings = []
        c.maxratio = 0.0
        env.stats.add("dims", str(c.dim))
        env.stats.add("families", cfg["func"]["family"])
        env.stats.add("fbmodes", cfg["fbmode"])
        return c

    def _inside(self, c, p):
        return all(a[0] <= v <= a[1] for a, v in zip(c.cfg["area"], p))

    def _cell(self, c, p):
        idx = []
        for nd, v in zip(c.nodes, p):
            i = int(np.searchsorted(nd, v, side="right")) - 1
            idx.append(i - 1)
        return tuple(idx)

    def _calculated(self, cache, cell):
        try:
            cv = np.asarray(cache.calculated_view)
            return bool(cv[cell])
        except Exception:
            return None

    def _ncalc(self, cache):
        try:
            return int(np.asarray(cache.calculated_view).sum())
        except Exception:
            return -1

    def _call(self, cache, p):
        """Evaluate a cache; returns ("ok", value) or ("raised", exception)."""
        try:
            return "ok", float(cache(*p))
        except SimFault as e:
            return "fault", e
        except SimInterrupt as e:
            return "fault", e
        except Exception as e:
            return "raised", e

    def _oracle_point(self, c, p, how, val, env, who="subject"):
        """Clauses that compare one evaluation with the wrapped function itself."""
        inside = self._inside(c, p)
        if not inside:
            if c.cfg["nbe"]:
                if how != "ok":
                    raise Violation("outside-passthrough", who, "p=%r outside the area with no_boundary_error: raised %r" % (p, val))
                fv = c.ref.value(*p) if c.inner_ref is None else float(c.inner_ref(*p))
                same = (val == fv or (val != val and fv != fv))
                if c.cfg.get("nested"):
                    same = same or abs(val - fv) <= 1e-12 * c.range      # the wrapped function is itself a cache of f
                if not same:
                    raise Violation("outside-passthrough", who, "p=%r: returned %r, wrapped function gives %r" % (p, val, fv))
                env.probe("outside_passthrough")
            else:
                if how != "raised" or not isinstance(val, ValueError):
                    raise Violation("outside-raises", who, "p=%r outside the area: expected ValueError, got %s %r" % (p, how, val))
                env.probe("outside_valueerror")
            return
        if how == "raised":
            raise Violation("unexpected-exception", who, "p=%r inside the area raised %s: %s" % (p, type(val).__name__, val))
        if how != "ok":
            return
        fv = c.ref.value(*p)
        tol = RTOL * c.range
        err = abs(val - fv)
        if not (val == val):
            raise Violation("nan-result", who, "p=%r returned NaN, f=%r" % (p, fv))
        if c.inner_ref is not None:
            return
        if c.exact:
            if err > tol:
                raise Violation("multilinear-exact", who, "p=%r cache=%r f=%r err=%g tol=%g" % (p, val, fv, err, tol))
        else:
            bound = K_BOUND * c.curv + c.tol_f
            if c.curv > 0:
                c.maxratio = max(c.maxratio, err / c.curv)
            if err > bound:
                raise Violation("curvature-bound", who, "p=%r cache=%r f=%r err=%g bound=%g (K=%g curv=%g)" % (
                    p, val, fv, err, bound, K_BOUND, c.curv))

    def _node_clause(self, c, p, val, env, who="subject"):
        """If p is a point at which the cache itself sampled f, cache(p) must equal f(p)."""
        tp = tuple(float(v) for v in p)
        if c.inner_ref is not None:
            # the wrapped function is a cache: the outer cache's own sampling nodes are known from its grid
            if self._inside(c, p) and all(any(v == float(x) for x in nd[1:-1]) for v, nd in zip(tp, c.nodes)):
                fv = float(c.inner_ref(*tp))
                if abs(val - fv) > c.tol_f:
                    raise Violation("node-equality", who, "sampling node p=%r cache=%r wrapped cache=%r" % (p, val, fv))
                env.probe("node_equality_checked_nested")
            return
        if tp in c.sampled:
            fv = c.ref.value(*p)
            if abs(val - fv) > c.tol_f:
                raise Violation("node-equality", who, "sampling node p=%r cache=%r f=%r" % (p, val, fv))
            env.probe("node_equality_checked")

    def _eval_subject(self, c, op, env):
        p = op["p"]
        inside = self._inside(c, p)
        cell = self._cell(c, p) if inside else None
        warm = self._calculated(c.subject, cell) if inside else None
        ncalls = c.f.calls
        nlog = len(c.f.log)
        how, val = self._call(c.subject, p)
        newcalls = c.f.log[nlog:]
        # every point at which the cache itself sampled f while serving an in-area request is a
        # "sampling node" for the node-equality clause (implementation-agnostic definition)
        if inside:
            c.sampled.update(newcalls)
        if how == "fault":
            c.fired += 1
            env.fault_fired(op.get("_fk", c.cfg["fault_kind"]))
            if cell is not None:
                c.failed_cells.add(cell)
            env.event(op["op"], "fault", op.get("pk", ""))
            return how, val, inside, warm
        if inside and how == "ok":
            if warm:
                env.probe("eval_on_warm_cell")
                env.nontrivial = True
                if c.f.calls != ncalls:
                    env.probe("warm_cell_resampled")
            elif warm is False:
                if 0 < len(newcalls) < 4 ** c.dim:
                    env.probe("fill_with_shared_nodes")
                    env.nontrivial = True
                if len(newcalls) == 0:
                    env.probe("fill_entirely_presampled")
                    env.nontrivial = True
                if cell in c.failed_cells:
                    env.probe("cell_filled_after_failed_fill")
            if c.fired:
                env.nontrivial = True
        return how, val, inside, warm

    def step(self, c, op, env):
        kind = op["op"]
        if kind == "fault":
            if c.cfg.get("faults", True):
                c.f.fault_at[c.f.calls + int(op["after"])] = op["kind"]
                env.fault_armed(op["kind"])
            env.event("fault", "armed")
            self._state(c, env, kind)
            return "armed"
        p = op["p"]
        how, val, inside, warm = self._eval_subject(c, op, env)
        out = how
        if how != "fault":
            self._oracle_point(c, p, how, val, env)
            if how == "ok" and inside:
                self._node_clause(c, p, val, env)
            if how == "ok":
                env.digest.add(val)
        if kind == "check" and how != "fault":
            h2, v2 = self._call(c.twin, p)
            self._compare(c, p, how, val, h2, v2, "twin", RTOL * c.range)
            env.probe("twin_compared")
            if op.get("decoy") and not op.get("fresh") and len(c.siblings) < 2:
                # another cache around the twin's *function object*, with a different resolution, stays alive next to it
                cfg2 = dict(c.cfg)
                cfg2["res"] = [r * 1.37 for r in c.cfg["res"]]
                sib = self._make_cache(cfg2, c.ftwin)
                self._call(sib, p)
                c.siblings.append(sib)
                env.probe("sibling_cache_same_function_object")
            if op.get("fresh"):
                if op.get("decoy"):
                    # an unrelated function cached with the *same* area / resolution / bounds lives and dies just before
                    # the fresh cache is created (its memory is typically re-used): caches of different functions must not mix
                    dspec = dict(c.cfg["func"])
                    if "offset" in dspec:
                        dspec["offset"] = dspec["offset"] + 7.5
                    else:
                        key = "terms"
                        dspec[key] = [dict(t, c=t["c"] + 7.5) if not (t.get("axes") or any(t.get("pow", []))) else t for t in dspec[key]]
                    fdecoy = SimFunction(c.dim, dspec)
                    decoy = self._make_cache(c.cfg, fdecoy)
                    self._call(decoy, p)
                    for q in c.cfg.get("final", [])[:3]:
                        self._call(decoy, q)
                    del decoy, fdecoy
                    env.probe("decoy_cache_lived_and_died")
                ffresh = SimFunction(c.dim, c.cfg["func"])
                fresh = self._make_cache(c.cfg, ffresh)
                h3, v3 = self._call(fresh, p)
                self._compare(c, p, how, val, h3, v3, "fresh", RTOL * c.range)
                self._oracle_point(c, p, h3, v3, env, who="fresh")
                env.probe("fresh_compared")
        if kind == "evalnb" and how != "fault" and c.cfg["fbmode"] != "none":
            if c.nb is None:
                c.fnb = SimFunction(c.dim, c.cfg["func"])
                c.nb = self._make_cache(c.cfg, c.fnb, fb=None)
            h4, v4 = self._call(c.nb, p)
            self._compare(c, p, how, val, h4, v4, "no-bounds", c.tol_f)
            env.probe("bounds_neutrality_compared")
        env.event(kind, out if how != "ok" else "ok",
                  "%s:%s" % (op.get("pk", ""), {True: "warm", False: "cold", None: "-"}[warm]))
        self._state(c, env, kind)
        return out

    def _compare(self, c, p, how, val, h2, v2, who, tol):
        if how != h2:
            raise Violation("history-dependence", who, "p=%r subject %s %r but %s cache %s %r" % (p, how, val, who, h2, v2))
        if how == "ok":
            if not (abs(val - v2) <= tol or (val != val and v2 != v2)):
                raise Violation("history-dependence", who, "p=%r subject=%r %s=%r diff=%g tol=%g" % (
                    p, val, who, v2, abs(val - v2), tol))
        elif how == "raised":
            if type(val) is not type(v2):
                raise Violation("history-dependence", who, "p=%r subject raised %s, %s raised %s" % (
                    p, type(val).__name__, who, type(v2).__name__))

    def _state(self, c, env, kind):
        n = self._ncalc(c.subject)
        total = 1
        for nd in c.nodes:
            total *= len(nd) - 3
        frac = 0 if n <= 0 else (1 if n * 3 < total else (2 if n < total else 3))
        if n == total:
            env.probe("all_cells_filled")
        env.state("d%d|f%d|pend%d|fired%d|%s" % (c.dim, frac, 1 if c.f.fault_at else 0, min(c.fired, 2),
                                                  c.cfg["fbmode"]), kind)

    def finish(self, c, env):
        # disarm: the final pass compares a healthy subject with a brand-new cache
        c.f.fault_at.clear()
        ffresh = SimFunction(c.dim, c.cfg["func"])
        fresh = self._make_cache(c.cfg, ffresh)
        pts = sorted(c.cfg.get("final", []))
        for p in pts:
            how, val, inside, warm = self._eval_subject(c, {"op": "final", "p": p}, env)
            self._oracle_point(c, p, how, val, env)
            h2, v2 = self._call(fresh, p)
            self._compare(c, p, how, val, h2, v2, "fresh-final", RTOL * c.range)
            if how == "ok":
                self._node_clause(c, p, val, env)
                env.digest.add(val)
        # every point the subject sampled inside the area is a sampling node: check equality there
        checked = 0
        nodes_to_check = sorted(c.sampled)
        if c.inner_ref is not None:
            import itertools
            nodes_to_check = list(itertools.islice(itertools.product(*[[float(x) for x in nd[2:-2]] for nd in c.nodes]), 40))
        for q in nodes_to_check:
            if self._inside(c, q) and all(a[0] + 2 * EPS < v < a[1] - 2 * EPS for a, v in zip(c.cfg["area"], q)):
                how, val = self._call(c.subject, list(q))
                if how != "ok":
                    raise Violation("unexpected-exception", "subject", "node %r: %s %r" % (q, how, val))
                self._node_clause(c, q, val, env)
                checked += 1
                if checked >= 40:
                    break
        env.stats.add("maxratio_bucket", "%.2f" % (math.ceil(c.maxratio * 20) / 20.0))

    # ------------------------------------------------------------------ shrinking
    def simplify_op(self, op):
        out = []
        if op["op"] == "check":
            if op.get("fresh"):
                o = dict(op)
                o["fresh"] = False
                out.append(o)
            o = dict(op)
            o["op"] = "eval"
            o.pop("fresh", None)
            out.append(o)
        if op["op"] == "evalnb":
            o = dict(op)
            o["op"] = "eval"
            out.append(o)
        if op["op"] == "fault" and op["after"] > 0:
            o = dict(op)
            o["after"] = 0
            out.append(o)
        return out

    def simplify_config(self, cfg):
        out = []
        if cfg.get("final"):
            c = dict(cfg)
            c["final"] = cfg["final"][: len(cfg["final"]) // 2]
            out.append(c)
        if cfg["fbmode"] != "none":
            c = dict(cfg)
            c["fbmode"] = "none"
            out.append(c)
        if cfg["nbe"]:
            c = dict(cfg)
            c["nbe"] = False
            out.append(c)
        f = cfg["func"]
        key = "terms" if "terms" in f else "waves"
        if len(f[key]) > 1:
            for i in range(len(f[key])):
                c = dict(cfg)
                c["func"] = dict(f)
                c["func"][key] = f[key][:i] + f[key][i + 1:]
                out.append(c)
        return out
