"""C15 — observer groups broadcast settings faithfully and keep members consistent.

Real: every Observer0DGroup subclass (SightLineGroup, FibreOpticGroup, PixelGroup, TargettedPixelGroup), the deprecated
SpectroscopicSightLineGroup / SpectroscopicFibreOpticGroup, BolometerCamera, raysect observers (holders of member state).
Stub: counting pipelines (Python subclass of PowerPipeline0D), SerialEngine, a World with one tiny emitter.

History = add / assign-observers / broadcast (scalar, list, tuple, ndarray, wrong length) / names / rename / index /
wrong-type add / connect_pipelines / observe.  Oracle = ordered list-of-records model audited after every operation.
"""

import inspect

import numpy as np
from raysect.core import Node, Point3D, Vector3D, translate
from raysect.core.workflow import SerialEngine
from raysect.optical import World
from raysect.optical.material import UniformVolumeEmitter, AbsorbingSurface
from raysect.optical.library.spectra.colours import red
from raysect.optical.spectralfunction import ConstantSF
from raysect.optical.observer import (SightLine, FibreOptic, Pixel, TargettedPixel, PowerPipeline0D, RadiancePipeline0D,
                                      SpectralPowerPipeline0D, SpectralRadiancePipeline0D)
from raysect.primitive import Sphere, Box

from cherab.tools.observers import (SightLineGroup, FibreOpticGroup, PixelGroup, TargettedPixelGroup,
                                    SpectroscopicSightLineGroup, SpectroscopicFibreOpticGroup,
                                    SpectroscopicSightLine, SpectroscopicFibreOptic)
from cherab.tools.observers.bolometry import BolometerCamera, BolometerFoil, BolometerSlit, BolometerIRVB
from raysect.optical.observer import PowerPipeline2D

from ..core import Violation, HarnessError
from ..machine import Machine


class CountPipe(PowerPipeline0D):
    """Counting pipeline: records how often an observation initialised / finalised it."""

    def __init__(self):
        super().__init__(accumulate=False, name="count")
        self.inits = 0
        self.finals = 0

    def initialise(self, min_wavelength, max_wavelength, spectral_bins, spectral_slices, quiet):
        self.inits += 1
        return PowerPipeline0D.initialise(self, min_wavelength, max_wavelength, spectral_bins, spectral_slices, quiet)

    def finalise(self):
        self.finals += 1
        return PowerPipeline0D.finalise(self)


class CountPipe2D(PowerPipeline2D):
    """The same for a 2-D member (BolometerIRVB)."""

    def __init__(self):
        super().__init__(accumulate=False, name="count2d", display_progress=False)
        self.inits = 0
        self.finals = 0

    def initialise(self, pixels, pixel_samples, min_wavelength, max_wavelength, spectral_bins, spectral_slices, quiet):
        self.inits += 1
        return PowerPipeline2D.initialise(self, pixels, pixel_samples, min_wavelength, max_wavelength, spectral_bins, spectral_slices, quiet)

    def finalise(self):
        self.finals += 1
        return PowerPipeline2D.finalise(self)


GROUPS = {
    "SightLineGroup": (SightLineGroup, "sightline", "pixel"),
    "FibreOpticGroup": (FibreOpticGroup, "fibre", "pixel"),
    "PixelGroup": (PixelGroup, "pixel", "fibre"),
    "TargettedPixelGroup": (TargettedPixelGroup, "tpixel", "sightline"),
    "SpectroscopicSightLineGroup": (SpectroscopicSightLineGroup, "ssightline", "sightline"),
    "SpectroscopicFibreOpticGroup": (SpectroscopicFibreOpticGroup, "sfibre", "fibre"),
    "BolometerCamera": (BolometerCamera, "foil", "tpixel"),
}

SPECIAL = {"observers", "names", "pipelines", "sight_lines", "foil_detectors"}
NODE_PROPS = {"parent", "transform", "name", "children", "root", "meta"}

# value kinds per broadcast attribute (valid scalars only; coupled constraints handled by disjoint ranges)
VAL = {
    "render_engine": "engine", "spectral_bins": ("int", 10, 50), "spectral_rays": ("int", 1, 10),
    "max_wavelength": ("float", 500.0, 700.0), "min_wavelength": ("float", 300.0, 400.0),
    "ray_extinction_prob": ("float", 0.0, 1.0), "ray_max_depth": ("int", 10, 20), "ray_extinction_min_depth": ("int", 1, 10),
    "ray_importance_sampling": "bool", "ray_important_path_weight": ("float", 0.0, 1.0), "quiet": "bool",
    "pixel_samples": ("int", 1, 6), "samples_per_task": ("int", 1, 100),
    "acceptance_angle": ("float", 0.5, 89.0), "radius": ("float", 1e-4, 0.05), "sensitivity": ("float", 0.1, 10.0),
    "x_width": ("float", 1e-3, 0.1), "y_width": ("float", 1e-3, 0.1), "targetted_path_prob": ("float", 0.0, 1.0),
    "targets": "targets", "origin": "point", "direction": "vector", "display_progress": "bool", "accumulate": "bool",
}


def discover(cls):
    """Broadcast attributes of a group class, by introspection (a property missing from VAL is a harness error)."""
    attrs = []
    for klass in cls.__mro__:
        if klass is Node:
            break
        for name, obj in vars(klass).items():
            if isinstance(obj, property) and name not in SPECIAL and name not in NODE_PROPS and name not in attrs:
                if name == "slits":
                    continue
                attrs.append(name)
    for a in attrs:
        if a not in VAL:
            raise HarnessError("group class %s has a property %r the value table does not know" % (cls.__name__, a))
    return sorted(attrs)


def ndarray_ok(cls, attr):
    prop = getattr(cls, attr, None)
    if not isinstance(prop, property) or prop.fset is None:
        return False
    try:
        return "ndarray" in inspect.getsource(prop.fset)
    except Exception:
        return False


def gen_name(rng):
    """Member names: mostly obs<k>; sometimes digit-only channel numbers ('1', '2', ...) which must stay names, not indices."""
    if rng.random() < 0.25:
        return str(rng.randrange(4))
    return "obs%d" % rng.randrange(7)


def gen_scalar(rng, attr):
    k = VAL[attr]
    if k == "engine":
        return {"engine": rng.randrange(3)}
    if k == "bool":
        return rng.random() < 0.5
    if k == "targets":
        return {"targets": sorted(rng.sample(range(3), rng.randint(1, 3)))}
    if k == "point":
        return {"point": [round(rng.uniform(-2, 2), 3) for _ in range(3)]}
    if k == "vector":
        v = [round(rng.uniform(-1, 1), 3) for _ in range(3)]
        if sum(abs(c) for c in v) < 0.2:
            v = [0.0, 0.0, 1.0]
        if rng.random() < 0.2:
            # along the z axis (either way, any length): the deprecated observers choose their 'up' vector by looking at it
            v = rng.choice([[0.0, 0.0, 1.0], [0.0, 0.0, -1.0], [0.0, 0.0, 2.0], [0.0, 0.0, -0.5], [0.0, 1.0, 0.0]])
        return {"vector": v}
    if rng.random() < 0.12:
        return k[1] if rng.random() < 0.6 else k[2]          # the ends of the legal range (0, 0.0, 1 ... are values too)
    if k[0] == "int":
        return rng.randint(k[1], k[2])
    return round(rng.uniform(k[1], k[2]), 6)


class Ctx:
    pass


class GroupMachine(Machine):
    pid = "C15"
    title = "Observer groups broadcast settings faithfully and keep members consistent"
    quick_runs = 12000
    thorough_runs = 300000
    components_real = ["cherab.tools.observers.group.* (all group classes)", "cherab.tools.observers.bolometry.BolometerCamera/Foil/Slit",
                       "cherab.tools.observers.spectroscopy (deprecated observers)", "raysect observers and scene graph"]
    components_stub = ["CountPipe (counting subclass of PowerPipeline0D)", "SerialEngine instead of MulticoreEngine",
                       "World with one small uniform emitter"]
    assumptions = [
        "elements of right-length sequences are individually valid for the member observers (element validation is raysect's)",
        "observers removed from a group by re-assigning `observers` may remain scene-graph children: not judged (property speaks of members)",
    ]
    rule = ("cases = seeded (group class, pool of observers, op list); abstraction = sequence of (op kind, attribute, value kind, "
            "group size, outcome); non-trivial iff a broadcast or membership change is followed by a later audit with >= 2 members "
            "after at least one other mutation (element-wise order and stale membership become observable)")

    # ------------------------------------------------------------------ generation
    def generate(self, rng, tier):
        gname = rng.choice(list(GROUPS))
        cls = GROUPS[gname][0]
        cfg = {"group": gname, "pool": 6, "initial": rng.randint(0, 4), "via_ctor": rng.random() < 0.5,
               "ctor_as": rng.choice(["list", "list", "tuple", "generator"]),
               # the group node itself sits somewhere in the scene (members live in its frame)
               "gtransform": rng.choice([None, None, [round(rng.uniform(-1, 1), 3) for _ in range(3)] + [round(rng.uniform(-80, 80), 1)]])}
        ops = []
        if gname == "BolometerCamera":
            # the camera accepts BolometerFoil and BolometerIRVB members
            cfg["irvb"] = [i for i in range(6) if rng.random() < 0.2]
            for _ in range(rng.randint(3, 25)):
                u = rng.random()
                if u < 0.3:
                    ops.append({"op": "add", "i": rng.randrange(6)})
                elif u < 0.45:
                    ops.append({"op": "setobs", "idx": [rng.randrange(6) for _ in range(rng.randint(0, 5))],
                                "as": rng.choice(["list", "list", "tuple"])})
                elif u < 0.56:
                    ops.append({"op": "index", "i": rng.randint(-7, 7), "np": rng.choice([None, None, "int64", "uint8", "intp"])})
                elif u < 0.62:
                    ops.append({"op": "slice", "a": rng.randint(-3, 4), "b": rng.randint(-3, 6)})
                elif u < 0.75:
                    ops.append({"op": "byname", "name": gen_name(rng)})
                elif u < 0.85:
                    ops.append({"op": "addwrong", "how": rng.choice(["add", "setobs"]), "pos": rng.randrange(6)})
                elif u < 0.92:
                    ops.append({"op": "rename", "i": rng.randrange(6), "name": gen_name(rng)})
                else:
                    ops.append({"op": "observe"})
            return {"config": cfg, "ops": ops}
        attrs = discover(cls)
        focus = rng.sample(attrs, rng.randint(1, min(len(attrs), 6)))
        for _ in range(rng.randint(3, 40)):
            u = rng.random()
            if u < 0.12:
                ops.append({"op": "add", "i": rng.randrange(6)})
            elif u < 0.18:
                ops.append({"op": "setobs", "idx": [rng.randrange(6) for _ in range(rng.randint(0, 5))],
                            "as": rng.choice(["list", "tuple"])})
                if rng.random() < 0.4:
                    ops.append({"op": "caller.mutate", "how": rng.choice(["append", "pop", "clear"]), "i": rng.randrange(6)})
            elif u < 0.58:
                a = rng.choice(focus)
                kinds = ["scalar", "scalar", "list", "tuple", "short", "long", "empty", "first"]
                if ndarray_ok(cls, a) and VAL[a] not in ("engine", "targets", "point", "vector"):
                    kinds.append("ndarray")
                if isinstance(VAL[a], tuple):
                    kinds.append("npscalar")       # a single number that is not a Python int / float (array.max(), array[0])
                ops.append({"op": "set", "attr": a, "kind": rng.choice(kinds), "values": [gen_scalar(rng, a) for _ in range(8)]})
            elif u < 0.66:
                ops.append({"op": "names", "kind": rng.choice(["list", "tuple", "short", "long", "str"]),
                            "values": [gen_name(rng) for _ in range(8)]})
            elif u < 0.69:
                ops.append({"op": "rename", "i": rng.randrange(6), "name": gen_name(rng)})
            elif u < 0.70:
                # somebody else re-parents a member (another node adopts it); re-assigning the membership must bring it back
                if rng.random() < 0.5:
                    ops.append({"op": "set", "attr": "quiet", "kind": rng.choice(["scalar", "list"]),
                                "values": [rng.random() < 0.3 for _ in range(8)]})
                ops.append({"op": "steal", "i": rng.randrange(6), "to": rng.choice(["world", "none", "none"])})
                if rng.random() < 0.6:
                    ops.append({"op": "observe"})        # observing with a member outside the world fails half-way
                ops.append({"op": "setobs", "idx": [rng.randrange(6) for _ in range(rng.randint(1, 5))], "as": rng.choice(["list", "tuple"]),
                            "include_members": True})
            elif u < 0.76:
                ops.append({"op": "index", "i": rng.randint(-7, 7), "np": rng.choice([None, None, "int64", "uint8", "intp"])})
            elif u < 0.80:
                ops.append({"op": "slice", "a": rng.randint(-3, 4), "b": rng.randint(-3, 6)})
            elif u < 0.86:
                ops.append({"op": "byname", "name": gen_name(rng)})
            elif u < 0.885:
                ops.append({"op": "addwrong", "how": rng.choice(["add", "setobs", "setobs-tuple", "setobs-str"]), "pos": rng.randrange(6)})
            elif u < 0.90:
                ops.append({"op": "setobs.cyclic", "i": rng.randrange(6), "pos": rng.randrange(6)})
            elif u < 0.93:
                ops.append({"op": "connect", "classes": [rng.choice(["Power", "Radiance", "SpectralPower", "SpectralRadiance"])
                                                         for _ in range(rng.randint(1, 3))]})
            elif u < 0.95:
                ops.append({"op": "pipelines", "kind": rng.choice(["ok", "ok", "short", "long"]), "n": rng.randint(1, 2)})
            else:
                ops.append({"op": "observe"})
        return {"config": cfg, "ops": ops}

    # ------------------------------------------------------------------ world
    def _make_observer(self, c, kind, i):
        name = "obs%d" % i
        eng = c.engines[0]
        kw = dict(name=name, render_engine=eng, pixel_samples=2, spectral_bins=10, spectral_rays=1,
                  min_wavelength=350.0, max_wavelength=600.0, quiet=True)
        tr = translate(0.1 * i, 0, -1)
        if kind == "sightline":
            return SightLine(pipelines=[CountPipe()], transform=tr, **kw)
        if kind == "fibre":
            return FibreOptic(pipelines=[CountPipe()], transform=tr, **kw)
        if kind == "pixel":
            return Pixel(pipelines=[CountPipe()], transform=tr, **kw)
        if kind == "tpixel":
            return TargettedPixel([c.targets[0]], pipelines=[CountPipe()], transform=tr, **kw)
        if kind == "ssightline":
            o = SpectroscopicSightLine(Point3D(0.1 * i, 0, -1), Vector3D(0.1, 0.2, 1), pipelines=[CountPipe()], name=name)
        elif kind == "sfibre":
            o = SpectroscopicFibreOptic(Point3D(0.1 * i, 0, -1), Vector3D(0.1, 0.2, 1), pipelines=[CountPipe()], name=name)
        elif kind == "foil":
            slit = c.slits[i % 2]
            o = BolometerFoil(name, Point3D(0.05 * i, 0, -1), Vector3D(1, 0, 0), 0.01, Vector3D(0, 1, 0), 0.01, slit)
            o.pipelines = [CountPipe()]
        elif kind == "irvb":
            o = BolometerIRVB(name, 0.01, (2, 2), c.slits[i % 2], translate(0.05 * i, 0, -1))
            o.pipelines = [CountPipe2D()]
        else:
            raise HarnessError(kind)
        o.render_engine = eng
        o.pixel_samples = 2
        o.spectral_bins = 10
        o.spectral_rays = 1
        o.min_wavelength = 350.0
        o.max_wavelength = 600.0
        o.quiet = True
        return o

    def _gtransform(self, cfg):
        g = cfg.get("gtransform")
        if not g:
            return None
        from raysect.core import rotate_y
        return translate(g[0], g[1], g[2]) * rotate_y(g[3])

    def start(self, cfg, env):
        c = Ctx()
        c.gname = cfg["group"]
        c.cls, c.okind, c.wrongkind = GROUPS[c.gname]
        c.is_cam = c.gname == "BolometerCamera"
        c.world = World()
        c.emitter = Sphere(0.2, parent=c.world, material=UniformVolumeEmitter(red, 1.0), transform=translate(0, 0, 1))
        c.engines = [SerialEngine() for _ in range(3)]
        c.targets = [c.emitter, Box(Point3D(-0.1, -0.1, 2), Point3D(0.1, 0.1, 2.1), parent=c.world, material=AbsorbingSurface()),
                     Sphere(0.05, parent=c.world, transform=translate(0.5, 0, 1), material=AbsorbingSurface())]
        c.slits = []
        if c.is_cam:
            # a weak background glow around everything: every foil measures its own non-zero power, so a permuted list of
            # measurements is visible
            c.glow = Sphere(30.0, parent=c.world, material=UniformVolumeEmitter(ConstantSF(1.0), 0.01))
            c.slits = [BolometerSlit("slit%d" % k, Point3D(0.0, 0, -0.9 + 0.01 * k), Vector3D(1, 0, 0), 0.005, Vector3D(0, 1, 0), 0.005,
                                     parent=c.world) for k in range(2)]
        c.irvb = set(cfg.get("irvb", []))
        c.pool = [self._make_observer(c, "irvb" if i in c.irvb else c.okind, i) for i in range(cfg["pool"])]
        c.wrong = self._make_observer(c, c.wrongkind, 99)
        c.attrs = [] if c.is_cam else discover(c.cls)
        init = list(range(cfg["initial"]))
        if c.is_cam:
            c.group = BolometerCamera(parent=c.world, name="cam")      # (its slits hang under the world: the camera stays at the origin)
            for i in init:
                c.group.add_foil_detector(c.pool[i])
        elif cfg.get("via_ctor"):
            members = [c.pool[i] for i in init]
            how = cfg.get("ctor_as", "list")
            c.group = c.cls(parent=c.world, name="grp", transform=self._gtransform(cfg),
                            observers=tuple(members) if how == "tuple" else ((o for o in members) if how == "generator" else members))
        else:
            c.group = c.cls(parent=c.world, name="grp", transform=self._gtransform(cfg))
            for i in init:
                c.group.add_observer(c.pool[i])
        c.members = list(init)                 # model: ordered pool indices
        c.mutations = 0
        c.last_list = None
        c.stolen = set()
        c.lastkind = "-"
        # model of member records is the observers' own state read at start (then updated by broadcast ops)
        c.model = [self._snapshot_member(c, o) for o in c.pool]
        env.stats.add("groups", c.gname)
        self._audit(c, env, "start")
        return c

    # ------------------------------------------------------------------ model helpers
    def _val(self, c, v):
        """Materialise a JSON scalar into the live value handed to the API."""
        if isinstance(v, dict):
            if "engine" in v:
                return c.engines[v["engine"]]
            if "targets" in v:
                return [c.targets[i] for i in v["targets"]]
            if "point" in v:
                return Point3D(*v["point"])
            if "vector" in v:
                return Vector3D(*v["vector"])
        return v

    def _canon(self, attr, v):
        """Comparable form of a member's attribute value."""
        k = VAL.get(attr)
        if k == "engine":
            return id(v)
        if k == "targets":
            return [id(t) for t in v]
        if k == "point":
            return ("p", round(v.x, 9), round(v.y, 9), round(v.z, 9))
        if k == "vector":
            n = v.normalise()
            return ("v", round(n.x, 9), round(n.y, 9), round(n.z, 9))
        if attr in ("display_progress", "accumulate") and isinstance(v, list):
            return [None if x is None else bool(x) for x in v]
        if isinstance(v, (bool, np.bool_)):
            return bool(v)
        if isinstance(v, (int, np.integer)):
            return int(v)
        if isinstance(v, (float, np.floating)):
            return float(v)
        return v

    def _expected_member_value(self, c, obs, attr, value):
        """What a member's getter must return after being assigned `value` (deprecated per-pipeline attributes)."""
        if attr == "display_progress" and c.okind in ("ssightline", "sfibre"):
            return [bool(value) if isinstance(p, SpectralPowerPipeline0D) else None for p in obs.pipelines]
        if attr == "accumulate" and c.okind in ("ssightline", "sfibre"):
            return [bool(value) if isinstance(p, (PowerPipeline0D, SpectralPowerPipeline0D)) else None for p in obs.pipelines]
        return self._canon(attr, value)

    def _snapshot_member(self, c, o):
        rec = {}
        for a in (c.attrs if hasattr(c, "attrs") else []):
            try:
                rec[a] = self._canon(a, getattr(o, a))
            except Exception as e:
                rec[a] = ("unreadable", type(e).__name__)
        rec["name"] = o.name
        rec["pipelines"] = [id(p) for p in o.pipelines]
        return rec

    def _full_state(self, c):
        return [self._snapshot_member(c, o) for o in c.pool] + [self._snapshot_member(c, c.wrong)]

    def _group_members(self, c):
        return list(c.group.foil_detectors) if c.is_cam else list(c.group.observers)

    # ------------------------------------------------------------------ audit (after every operation)
    def _audit(self, c, env, opname):
        g = c.group
        want = [c.pool[i] for i in c.members]
        got = self._group_members(c)
        if len(got) != len(want) or any(a is not b for a, b in zip(got, want)):
            raise Violation("membership", c.gname, "after %s: group holds %r, model %r" % (
                opname, [o.name for o in got], [c.pool[i].name for i in c.members]))
        if len(g) != len(want):
            raise Violation("membership", c.gname, "len(group) = %d, model %d" % (len(g), len(want)))
        kids = list(g.children)
        for o in want:
            if any(o is c.pool[i] for i in c.stolen):
                continue      # re-parented by somebody else since it was last assigned: not the group's doing
            if o.parent is not g or not any(k is o for k in kids):
                raise Violation("parent", c.gname, "after %s: member %r has parent %r" % (opname, o.name, o.parent))
        # every pool observer's own state must equal the model record (catches cross-talk and partial assignment)
        for i, o in enumerate(c.pool):
            snap = self._snapshot_member(c, o)
            if snap != c.model[i]:
                diff = {k: (snap[k], c.model[i][k]) for k in snap if snap[k] != c.model[i].get(k)}
                raise Violation("member-state", "%s.%s" % (c.gname, sorted(diff)[0]),
                                "after %s: observer #%d differs from the model: %r (observer, model)" % (opname, i, diff))
        if c.is_cam:
            slits = c.group.slits
            for o in want:
                if not any(s is o.slit for s in slits):
                    raise Violation("membership", c.gname, "camera.slits lacks the slit of member %r" % o.name)
            return
        # group getters return the members' values in member order
        for a in c.attrs:
            try:
                gv = getattr(g, a)
            except Exception as e:
                raise Violation("getter", "%s.%s" % (c.gname, a), "reading group.%s raised %s: %s" % (a, type(e).__name__, e))
            if not isinstance(gv, list) or len(gv) != len(want):
                raise Violation("getter", "%s.%s" % (c.gname, a), "group.%s = %r for %d members" % (a, gv, len(want)))
            for k, (i, v) in enumerate(zip(c.members, gv)):
                if self._canon(a, v) != c.model[i][a]:
                    raise Violation("getter", "%s.%s" % (c.gname, a), "after %s: group.%s[%d] = %r, member/model value %r" % (
                        opname, a, k, self._canon(a, v), c.model[i][a]))
        try:
            names = g.names
        except Exception as e:
            raise Violation("getter", "%s.names" % c.gname, "reading group.names raised %s" % type(e).__name__)
        if names != [c.model[i]["name"] for i in c.members]:
            raise Violation("getter", "%s.names" % c.gname, "after %s: group.names = %r, members are named %r" % (
                opname, names, [c.model[i]["name"] for i in c.members]))
        try:
            pl = g.pipelines
        except Exception as e:
            raise Violation("getter", "%s.pipelines" % c.gname, "reading group.pipelines raised %s" % type(e).__name__)
        if [[id(p) for p in x] for x in pl] != [c.model[i]["pipelines"] for i in c.members]:
            raise Violation("getter", "%s.pipelines" % c.gname, "group.pipelines does not list the members' pipelines in order")
        if len(want) >= 2 and c.mutations >= 2:
            env.nontrivial = True

    # ------------------------------------------------------------------ steps
    def step(self, c, op, env):
        k = op["op"]
        g = c.group
        n = len(c.members)
        out = "ok"
        detail = ""
        if k == "add":
            i = op["i"]
            if i in c.members:
                return "noop"
            try:
                (g.add_foil_detector if c.is_cam else g.add_observer)(c.pool[i])
            except Exception as e:
                raise Violation("add-refused", c.gname, "adding an observer of the group's type raised %s: %s" % (type(e).__name__, e))
            c.members.append(i)
            c.stolen.discard(i)
            c.mutations += 1
        elif k == "setobs":
            idx = []
            for i in (list(c.members) if op.get("include_members") else []) + list(op["idx"]):
                if i not in idx:
                    idx.append(i)
            val = [c.pool[i] for i in idx]
            if op["as"] == "tuple":
                val = tuple(val)
            try:
                if c.is_cam:
                    g.foil_detectors = val
                else:
                    g.observers = val
                c.members = idx
                c.mutations += 1
                c.stolen -= set(idx)          # a (re-)assigned member must be parented to the group again
                c.last_list = val if isinstance(val, list) else None
            except TypeError as e:
                if c.is_cam and op["as"] == "tuple":
                    out = "raised:TypeError"        # documented: must be a list
                else:
                    raise Violation("setobs-refused", c.gname, "assigning observers raised %s: %s" % (type(e).__name__, e))
            except Exception as e:
                raise Violation("setobs-refused", c.gname, "assigning observers raised %s: %s" % (type(e).__name__, e))
            detail = op["as"]
        elif k == "setobs.cyclic":
            i = op["i"]
            if i in c.members or c.is_cam:
                return "noop"
            c.pool[i].parent = c.world
            g.parent = c.pool[i]                       # the group now lives under that observer ...
            val = [c.pool[j] for j in c.members]
            val.insert(op["pos"] % (len(val) + 1), c.pool[i])
            env.fault_armed("reject-cyclic")
            try:
                g.observers = val                      # ... so adopting it must be refused by the scene graph
            except Exception:
                env.fault_fired("reject-cyclic")
                out = "raised"
            else:
                out = "accepted"
            g.parent = c.world
            # no atomicity assumed: membership is whatever the group reports (old or new), but it must be consistent
            now = self._group_members(c)
            idx = []
            for o in now:
                for j, cand in enumerate(c.pool):
                    if o is cand:
                        idx.append(j)
                        break
                else:
                    raise Violation("membership", c.gname, "the group lists an observer nobody gave it")
            c.members = idx
            detail = out
        elif k == "steal":
            i = op["i"]
            if i not in c.members or c.is_cam:
                return "noop"
            c.pool[i].parent = c.world if op["to"] == "world" else None
            c.stolen.add(i)
            env.probe("member_reparented_elsewhere")
            detail = op["to"]
        elif k == "caller.mutate":
            # the caller goes on editing the list object it handed to the group: membership must not follow
            lst = getattr(c, "last_list", None)
            if lst is None:
                return "noop"
            if op["how"] == "append":
                lst.append(c.pool[op["i"]])
            elif op["how"] == "pop" and lst:
                lst.pop()
            else:
                del lst[:]
            env.probe("caller_list_mutated_after_assignment")
            detail = op["how"]
        elif k == "addwrong":
            how = op["how"]
            before = self._full_state(c)
            try:
                if how == "add":
                    (g.add_foil_detector if c.is_cam else g.add_observer)(c.wrong)
                elif how in ("setobs", "setobs-tuple"):
                    val = [c.pool[i] for i in c.members]
                    val.insert(op.get("pos", len(val)) % (len(val) + 1), c.wrong)     # the intruder at any position
                    if how == "setobs-tuple":
                        val = tuple(val)            # e.g. another group's .observers handed over as it is
                    if c.is_cam:
                        g.foil_detectors = val
                    else:
                        g.observers = val
                else:
                    g.observers = "abc"
            except Exception as e:
                out = "raised:" + type(e).__name__
                env.fault_fired("reject-wrong-type")
            else:
                raise Violation("wrong-type-accepted", c.gname, "%s of an observer of type %s was accepted" % (how, type(c.wrong).__name__))
            env.fault_armed("reject-wrong-type")
            if c.wrong.parent is g and how not in ("setobs", "setobs-tuple"):
                raise Violation("wrong-type-accepted", c.gname, "refused observer was nevertheless re-parented to the group")
            detail = how
        elif k == "set":
            if c.is_cam:
                return "noop"
            out, detail = self._do_set(c, op, env)
        elif k == "names":
            if c.is_cam:
                return "noop"
            out, detail = self._do_names(c, op, env)
        elif k == "rename":
            o = c.pool[op["i"]]
            o.name = op["name"]
            c.model[op["i"]]["name"] = op["name"]
            c.mutations += 1
        elif k in ("index", "slice", "byname"):
            out = self._do_index(c, op, env)
        elif k == "connect":
            if c.is_cam:
                return "noop"
            out = self._do_connect(c, op, env)
        elif k == "pipelines":
            if c.is_cam:
                return "noop"
            m = {"ok": n, "short": n - 1 if n >= 1 else n + 1, "long": n + 1}[op["kind"]]
            val = [[CountPipe() for _ in range(op["n"])] for _ in range(m)]
            try:
                g.pipelines = val
            except ValueError:
                if op["kind"] == "ok":
                    raise Violation("pipelines-assign", c.gname, "group.pipelines = list of %d lists raised ValueError for %d members" % (m, n))
                env.fault_armed("reject-length")
                env.fault_fired("reject-length")
                out = "raised:ValueError"
            except Exception as e:
                raise Violation("pipelines-assign", c.gname, "group.pipelines assignment raised %s: %s" % (type(e).__name__, e))
            else:
                if op["kind"] != "ok":
                    raise Violation("length-mismatch", "%s.pipelines" % c.gname, "%d pipeline lists accepted by a group of %d members" % (m, n))
                for i, pl in zip(c.members, val):
                    c.model[i]["pipelines"] = [id(p) for p in pl]
                    for a in ("display_progress", "accumulate"):
                        if a in c.model[i]:
                            c.model[i][a] = self._canon(a, getattr(c.pool[i], a))
                c.kept_pipes = val
                c.mutations += 1
            detail = op["kind"]
        elif k == "observe":
            out = self._do_observe(c, op, env)
        else:
            return "noop"
        self._audit(c, env, k)
        env.event(k, out.split(":")[0], "%s|%s|n%d" % (op.get("attr", ""), detail, n))
        env.state("%s|n%d|m%d" % (c.gname, len(c.members), min(c.mutations, 3)), "%s:%s:%s" % (k, op.get("attr", ""), detail))
        return out

    def _do_set(self, c, op, env):
        g = c.group
        a = op["attr"]
        if a not in c.attrs:
            return "noop", ""
        n = len(c.members)
        kind = op["kind"]
        raw = op["values"]
        if kind == "first":
            # the single value the first member already holds (the others may differ): every member must take it
            if n < 2 or VAL[a] in ("engine", "targets", "point", "vector") or a in ("display_progress", "accumulate"):
                return "noop", ""
            val = getattr(c.pool[c.members[0]], a)
            try:
                setattr(g, a, val)
            except Exception as e:
                raise Violation("scalar-broadcast", "%s.%s" % (c.gname, a), "group.%s = %r raised %s: %s" % (a, val, type(e).__name__, e))
            for i in c.members:
                c.model[i][a] = self._expected_member_value(c, c.pool[i], a, val)
            c.mutations += 1
            env.probe("scalar_equal_to_first_member")
            return "ok", "first"
        if kind in ("scalar", "npscalar"):
            val = self._val(c, raw[0])
            if kind == "npscalar":
                if not isinstance(VAL[a], tuple):
                    return "noop", ""
                val = (np.int64 if val % 2 else np.int32)(val) if VAL[a][0] == "int" else np.float32(val)
                env.probe("numpy_scalar_broadcast")
            try:
                setattr(g, a, val)
            except Exception as e:
                raise Violation("scalar-broadcast", "%s.%s" % (c.gname, a), "group.%s = %r raised %s: %s" % (a, raw[0], type(e).__name__, e))
            for i in c.members:
                c.model[i][a] = self._expected_member_value(c, c.pool[i], a, val)
            c.mutations += 1
            env.stats.add("triples", "%s.%s.%s" % (c.gname, a, kind))
            return "ok", kind
        if kind in ("list", "tuple", "ndarray"):
            vals = [self._val(c, v) for v in (raw * 2)[:n]]
            seq = vals
            if kind == "tuple":
                seq = tuple(vals)
            elif kind == "ndarray":
                seq = np.array(vals)
            try:
                setattr(g, a, seq)
            except Exception as e:
                raise Violation("sequence-broadcast", "%s.%s" % (c.gname, a), "group.%s = %s of length %d (group size %d) raised %s: %s" % (
                    a, kind, len(vals), n, type(e).__name__, e))
            for i, v in zip(c.members, vals):
                c.model[i][a] = self._expected_member_value(c, c.pool[i], a, v)
            c.mutations += 1
            env.stats.add("triples", "%s.%s.%s" % (c.gname, a, kind))
            if n == 0:
                env.probe("sequence_assigned_to_empty_group")
            if n == 1:
                env.probe("sequence_assigned_to_size1_group")
            return "ok", kind
        # wrong length
        if kind == "short":
            m = n - 1 if n >= 1 else n + 1
        elif kind == "long":
            m = n + 1
        else:
            m = 0 if n > 0 else 2
            if n == 0 and VAL[a] == "targets" and op.get("values") and len(raw) % 2 == 0:
                # group of size 0: the empty sequence has the group's length and must be accepted as a no-op
                try:
                    setattr(g, a, [])
                except Exception as e:
                    raise Violation("sequence-broadcast", "%s.%s" % (c.gname, a), "group.%s = [] on an empty group raised %s: %s" % (
                        a, type(e).__name__, e))
                return "ok", "empty-on-empty"
        vals = [self._val(c, v) for v in (raw * 2)[:m]]
        env.fault_armed("reject-length")
        try:
            setattr(g, a, vals)
        except ValueError:
            env.fault_fired("reject-length")
            env.stats.add("triples", "%s.%s.%s" % (c.gname, a, kind))
            return "raised:ValueError", kind     # the audit that follows proves that nothing changed
        except Exception as e:
            raise Violation("length-mismatch", "%s.%s" % (c.gname, a), "sequence of length %d for %d members raised %s, not ValueError: %s" % (
                m, n, type(e).__name__, e))
        raise Violation("length-mismatch", "%s.%s" % (c.gname, a), "sequence of length %d was accepted by a group of %d members" % (m, n))

    def _do_names(self, c, op, env):
        g = c.group
        n = len(c.members)
        kind = op["kind"]
        vals = (op["values"] * 2)
        if kind in ("list", "tuple"):
            v = vals[:n]
            try:
                g.names = v if kind == "list" else tuple(v)
            except Exception as e:
                raise Violation("names-assign", "%s.names" % c.gname, "group.names = %r raised %s: %s" % (v, type(e).__name__, e))
            for i, nm in zip(c.members, v):
                c.model[i]["name"] = nm
            c.mutations += 1
            return "ok", kind
        if kind == "str":
            try:
                g.names = "abc"
            except TypeError:
                return "raised:TypeError", kind
            except Exception as e:
                raise Violation("names-assign", "%s.names" % c.gname, "group.names = 'abc' raised %s" % type(e).__name__)
            raise Violation("names-assign", "%s.names" % c.gname, "a str was accepted for names")
        m = (n - 1 if n >= 1 else n + 1) if kind == "short" else n + 1
        env.fault_armed("reject-length")
        try:
            g.names = vals[:m]
        except ValueError:
            env.fault_fired("reject-length")
            return "raised:ValueError", kind
        except Exception as e:
            raise Violation("length-mismatch", "%s.names" % c.gname, "names of length %d for %d members raised %s" % (m, n, type(e).__name__))
        raise Violation("length-mismatch", "%s.names" % c.gname, "names of length %d accepted by a group of %d members" % (m, n))

    def _do_index(self, c, op, env):
        g = c.group
        n = len(c.members)
        k = op["op"]
        try:
            if k == "index":
                ii = op["i"]
                if op.get("np") and not (op["np"] == "uint8" and ii < 0):
                    ii = getattr(np, op["np"])(ii)        # an integer that is not a Python int (np.argmax result, ...)
                got = g[ii]
            elif k == "slice":
                got = g[op["a"]:op["b"]]
            else:
                got = g[op["name"]]
            how = "ok"
        except Exception as e:
            got, how = e, "raised"
        if k == "index":
            i = op["i"]
            if -n <= i < n:
                if how != "ok" or got is not c.pool[c.members[i]]:
                    raise Violation("index", c.gname, "group[%d] with %d members gave %r" % (i, n, got))
            elif how != "raised" or not isinstance(got, IndexError):
                raise Violation("index", c.gname, "group[%d] with %d members: expected IndexError, got %r" % (i, n, got))
            return how
        if k == "slice":
            want = [c.pool[j] for j in c.members][op["a"]:op["b"]]
            if how != "ok" or len(got) != len(want) or any(x is not y for x, y in zip(got, want)):
                raise Violation("index", c.gname, "group[%d:%d] gave %r, expected %r" % (op["a"], op["b"], got, [o.name for o in want]))
            return how
        name = op["name"]
        match = [j for j in c.members if c.model[j]["name"] == name]
        if len(match) == 1:
            if how != "ok" or got is not c.pool[match[0]]:
                raise Violation("index", c.gname, "group[%r] (unique) gave %r" % (name, got))
            env.probe("lookup_unique_name")
        elif len(match) == 0:
            if how != "raised" or not isinstance(got, ValueError):
                raise Violation("index", c.gname, "group[%r] (absent): expected ValueError, got %r" % (name, got))
        else:
            env.probe("lookup_duplicate_name")
            if not c.is_cam and (how != "raised" or not isinstance(got, ValueError)):
                raise Violation("index", c.gname, "group[%r] (duplicate): expected ValueError, got %r" % (name, got))
        return how

    def _do_connect(self, c, op, env):
        g = c.group
        table = {"Power": PowerPipeline0D, "Radiance": RadiancePipeline0D, "SpectralPower": SpectralPowerPipeline0D,
                 "SpectralRadiance": SpectralRadiancePipeline0D}
        classes = [table[x] for x in op["classes"]]
        try:
            if c.okind in ("ssightline", "sfibre"):
                g.connect_pipelines([(cl, "p%d" % j, None) for j, cl in enumerate(classes)])
            else:
                g.connect_pipelines(classes, [{"name": "p%d" % j} for j in range(len(classes))])
        except Exception as e:
            raise Violation("connect-pipelines", c.gname, "connect_pipelines raised %s: %s" % (type(e).__name__, e))
        seen = set()
        for i in c.members:
            pl = list(c.pool[i].pipelines)
            if [type(p) for p in pl] != classes:
                raise Violation("connect-pipelines", c.gname, "member %d has pipelines %r, expected %r" % (i, pl, classes))
            for p in pl:
                if id(p) in seen:
                    raise Violation("connect-pipelines", c.gname, "a pipeline object is shared between members")
                seen.add(id(p))
                if hasattr(p, "display_progress") and p.display_progress:
                    raise Violation("connect-pipelines", c.gname, "display_progress not suppressed on %r" % p)
            c.model[i]["pipelines"] = [id(p) for p in pl]
            # deprecated per-pipeline attributes follow the new pipelines
            for a in ("display_progress", "accumulate"):
                if a in c.model[i]:
                    c.model[i][a] = self._canon(a, getattr(c.pool[i], a))
        c.mutations += 1
        return "ok"

    def _new_pipe(self, c, i):
        return CountPipe2D() if i in c.irvb else CountPipe()

    def _do_observe(self, c, op, env):
        g = c.group
        if c.stolen & set(c.members):
            # a member currently lives outside the world: observing must fail *and leave every setting as it was*
            if not any(c.pool[i].parent is None for i in c.stolen & set(c.members)):
                return "noop"
            for i in c.members:
                c.pool[i].pipelines = [self._new_pipe(c, i)]
                c.pool[i].render_engine = c.engines[0]
                c.model[i] = self._snapshot_member(c, c.pool[i])
            try:
                g.observe()
            except Exception:
                env.fault_armed("observe-raises")
                env.fault_fired("observe-raises")
                return "raised"          # the audit that follows compares every member attribute with the model
            raise Violation("observe", c.gname, "group.observe() succeeded although a member is detached from the world")
        pipes = {}
        for i in c.members:
            p = self._new_pipe(c, i)
            c.pool[i].pipelines = [p]
            c.pool[i].render_engine = c.engines[0]
            pipes[i] = p
            c.model[i] = self._snapshot_member(c, c.pool[i])
        others = {}
        for i, o in enumerate(c.pool):
            if i not in c.members:
                p = self._new_pipe(c, i)
                o.pipelines = [p]
                others[i] = p
                c.model[i] = self._snapshot_member(c, o)
        try:
            res = g.observe()
        except Exception as e:
            raise Violation("observe", c.gname, "group.observe() raised %s: %s" % (type(e).__name__, e))
        if c.is_cam and (res is None or len(res) != len(c.members)):
            raise Violation("observe", c.gname, "camera.observe() returned %r for %d members" % (res, len(c.members)))
        if c.is_cam:
            # round 8: the k-th returned measurement is the one the k-th member's own pipeline holds (member order)
            vals = []
            for k, i in enumerate(c.members):
                want = pipes[i].frame.mean if i in c.irvb else pipes[i].value.mean
                vals.append(repr(np.asarray(want).tolist()))
                if not (res[k] is want or np.array_equal(np.asarray(res[k]), np.asarray(want))):
                    raise Violation("observe-order", c.gname, "camera.observe()[%d] = %r is not the measurement of member %d (%r)" % (k, res[k], k, want))
            if len(set(vals)) == len(vals) and len(vals) > 1:
                env.probe("camera_observe_all_values_distinct")
        for i, p in pipes.items():
            if p.inits != 1 or p.finals != 1:
                raise Violation("observe", c.gname, "member %d was observed %d times (finalised %d) by one group.observe()" % (i, p.inits, p.finals))
        for i, p in others.items():
            if p.inits != 0:
                raise Violation("observe", c.gname, "non-member observer %d was observed by group.observe()" % i)
        for i in range(len(c.pool)):
            c.model[i] = self._snapshot_member(c, c.pool[i])
        env.probe("group_observed_n%d" % min(len(c.members), 3))
        return "ok"

    def finish(self, c, env):
        self._audit(c, env, "finish")

    def simplify_op(self, op):
        out = []
        if op["op"] == "set" and len(op["values"]) > 1:
            o = dict(op)
            o["values"] = op["values"][:1] * len(op["values"])
            out.append(o)
        return out
