"""C16 — instruments: settings follow parameters, calibration conserves the spectrum.

Real: cherab.tools.spectroscopy (Spectrometer, CzernyTurnerSpectrometer, Polychromator, PolychromatorFilter,
TrapezoidalFilter), raysect Spectrum and pipelines.  No stubs.

History = setters (valid and refused) interleaved with *partial* reads (each read warms only some of the lazily
cleared caches) and calibrations.  Oracle = instrument constructed directly from the value specification,
the specification itself for reported parameters, and per-state invariants.
"""

import math

import numpy as np
from raysect.optical import Spectrum
from cherab.tools.spectroscopy import (Spectrometer, CzernyTurnerSpectrometer, Polychromator, PolychromatorFilter,
                                       TrapezoidalFilter)

from ..core import Violation, close
from ..machine import Machine

READS = ["min_wavelength", "max_wavelength", "spectral_bins", "wavelengths", "wavelength_to_pixel",
         "pipeline_classes", "pipeline_kwargs", "create_pipelines"]
RTOL = 1e-9


def gen_edges(rng):
    n = rng.choice([2, 2, 3, 5, 8, 13, 25, 40])
    lo = round(rng.uniform(200, 900), 3)
    style = rng.choice(["uniform", "survey", "random"])
    edges = [lo]
    w = rng.choice([0.01, 0.05, 0.3, 1.0, 4.0])
    for i in range(n - 1):
        if style == "uniform":
            d = w
        elif style == "survey":
            d = w * (1.0 + 0.08 * i)
        else:
            d = w * rng.uniform(0.2, 3.0)
        edges.append(round(edges[-1] + d, 6))
    return edges


def gen_nested(rng):
    wide = gen_edges(rng)
    lo, hi = wide[0], wide[-1]
    a = lo + (hi - lo) * rng.uniform(0.2, 0.6)
    n = rng.choice([2, 3, 6])
    d = (hi - a) * rng.uniform(0.05, 0.3) / n
    inner = [round(a + i * d, 6) for i in range(n + 1)]
    out = [wide, inner]
    rng.shuffle(out)
    return out


def gen_bad_edges(rng):
    kind = rng.choice(["short", "nonmono", "2d", "equal"])
    if kind == "short":
        return [500.0]
    if kind == "nonmono":
        return [500.0, 501.0, 500.5, 502.0]
    if kind == "equal":
        return [500.0, 501.0, 501.0]
    return [[500.0, 501.0], [502.0, 503.0]]


def gen_ct(rng):
    return {"diffraction_order": rng.choice([1, 1, 2, 3]), "grating": rng.choice([3.e-4, 6.e-4, 1.2e-3, 1.8e-3]),
            "focal_length": rng.choice([5.e8, 1.e9, 7.5e8]), "pixel_spacing": rng.choice([1.3e4, 2.e4, 2.6e4]),
            "diffraction_angle": round(rng.uniform(5.0, 25.0), 3),
            "accommodated_spectra": gen_acc(rng)}


_ACC_POOL = []       # (lower wavelength, pixels) pairs used so far in the case being generated: spectra come and go and come back


def gen_acc(rng):
    out = []
    for _ in range(rng.randint(1, 3)):
        if _ACC_POOL and rng.random() < 0.5:
            out.append(list(rng.choice(_ACC_POOL)))
            continue
        wl = float(rng.randint(300, 480)) if rng.random() < 0.25 else round(rng.uniform(300, 480), 2)
        pair = [wl, rng.choice([1, 2, 8, 32, 64])]
        if len(_ACC_POOL) < 5:
            _ACC_POOL.append(pair)
        out.append(list(pair))
    return out


def gen_filter(rng, i):
    if rng.random() < 0.7:
        w = round(rng.uniform(0.5, 6.0), 3)
        ft = rng.choice([None, round(w * rng.uniform(0.2, 1.0), 3), w])
        return {"type": "trap", "cw": round(rng.uniform(380, 800), 2), "window": w, "flat_top": ft, "name": "f%d" % i}
    n = rng.randint(2, 6)
    lo = round(rng.uniform(380, 800), 2)
    wl = sorted({round(lo + rng.uniform(0, 8), 3) for _ in range(n)})
    if len(wl) < 2:
        wl = [lo, lo + 1.0]
    if rng.random() < 0.5:
        rng.shuffle(wl)                  # the class sorts its table: any row order is legal
    return {"type": "generic", "wl": wl, "samples": [round(rng.uniform(0, 1), 3) for _ in wl], "name": "g%d" % i}


def make_filter(fs):
    if fs["type"] == "trap":
        return TrapezoidalFilter(fs["cw"], fs["window"], fs["flat_top"], fs["name"])
    return PolychromatorFilter(fs["wl"], fs["samples"], False, fs["name"])


class Ctx:
    pass


class InstrumentMachine(Machine):
    pid = "C16"
    title = "Instruments: settings follow parameters, calibration conserves the spectrum"
    quick_runs = 16000
    thorough_runs = 600000
    components_real = ["cherab.tools.spectroscopy.* (pure Python)", "raysect.optical.Spectrum.integrate", "raysect pipelines"]
    components_stub = []
    assumptions = [
        "raysect Spectrum.integrate (linear interpolation between bin centres) is the definition of the spectrum's integral",
        "range / bin-width invariants are evaluated only for finite, strictly increasing pixel layouts (the property's domain)",
        "a container handed to a setter stays the caller's: editing it afterwards is not a parameter change of the instrument",
    ]
    rule = ("cases = seeded (instrument class, initial parameters, op list of setters/refused setters/partial reads/calibrations); "
            "abstraction = sequence of (op kind, attribute or read-set, outcome, cache warm bitmap); non-trivial iff a read or "
            "calibrate follows a setter that follows an earlier read of an overlapping lazily cached setting")

    # ------------------------------------------------------------------ generation
    def generate(self, rng, tier):
        kind = rng.choice(["spectrometer", "spectrometer", "czerny", "polychromator"])
        del _ACC_POOL[:]
        cfg = {"kind": kind}
        if kind == "spectrometer":
            cfg["spec"] = {"wavelength_to_pixel": [gen_edges(rng) for _ in range(rng.randint(1, 3))],
                           "min_bins_per_pixel": rng.choice([1, 1, 2, 5]), "name": "spec0"}
            attrs = ["wavelength_to_pixel", "min_bins_per_pixel", "name"]
        elif kind == "czerny":
            cfg["spec"] = gen_ct(rng)
            cfg["spec"].update({"min_bins_per_pixel": rng.choice([1, 2, 3]), "name": "ct0"})
            attrs = ["diffraction_order", "grating", "focal_length", "pixel_spacing", "diffraction_angle",
                     "accommodated_spectra", "min_bins_per_pixel", "name"]
        else:
            cfg["pool"] = [gen_filter(rng, i) for i in range(rng.randint(1, 5))]
            npool = len(cfg["pool"])
            cfg["spec"] = {"filters": [rng.randrange(npool) for _ in range(rng.randint(1, 3))],
                           "min_bins_per_window": rng.choice([1, 5, 10, 20]), "name": "poly0"}
            attrs = ["filters", "min_bins_per_window", "name"]
        focus = rng.sample(attrs, rng.randint(1, len(attrs)))
        ops = []
        for _ in range(rng.randint(3, 30)):
            u = rng.random()
            if u < 0.39:
                a = rng.choice(focus)
                ops.append({"op": "set", "attr": a, "value": self._value(rng, kind, a, cfg),
                            "as": rng.choice(["plain", "plain", "plain", "numpy", "tuple", "generator", "int", "float32"])})
            elif u < 0.43 and kind != "polychromator":
                a = rng.choice([x for x in attrs if x not in ("diffraction_order", "min_bins_per_pixel", "name")])
                ops.append({"op": "set.nudge", "attr": a, "rel": rng.choice([-1, 1]) * rng.choice([1e-7, 1e-6, 4e-6, 2e-5]),
                            "n": rng.choice([1, 1, 2, 7, 40])})
            elif u < 0.48:
                a = rng.choice(focus)
                v = self._invalid(rng, kind, a)
                if v is not None:
                    ops.append({"op": "set", "attr": a, "value": v, "invalid": True})
            elif 0.54 <= u < 0.57 and kind == "spectrometer":
                # a new pixel calibration with the same ends and the same number of pixels, different edges in between
                ops.append({"op": "set.same_extent", "seed": rng.randrange(1 << 30)})
            elif u < 0.54:
                # the caller keeps using the container it handed over: mutate it (must not reach the instrument), or edit it
                # and assign the very same object again (must be picked up)
                ca = {"spectrometer": "wavelength_to_pixel", "czerny": "accommodated_spectra", "polychromator": "filters"}[kind]
                if kind == "spectrometer" or rng.random() < 0.5:
                    ops.append({"op": "caller.mutate", "attr": ca, "scale": rng.choice([0.999, 1.0005, 1.01]),
                                "edit": rng.choice(["item", "append", "delete", "swap"])})
                else:
                    ops.append({"op": "edit.reassign", "attr": ca, "value": self._value(rng, kind, ca, cfg)})
            elif u < 0.85 or kind == "polychromator":
                ops.append({"op": "read", "what": sorted(rng.sample(READS, rng.choice([1, 1, 2, 3, len(READS)])))})
            else:
                bins = rng.choice([1, 2, 7, 50, 333, 1000])
                cover = rng.random() < 0.85
                ops.append({"op": "calibrate", "lo_off": round(rng.choice([0.0, 0.0, 1e-3, 0.7, 13.0]), 4) * (1 if cover else -1),
                            "hi_off": round(rng.choice([0.0, 0.0, 2e-3, 0.9, 11.0]), 4) * (1 if cover or rng.random() < 0.5 else -1),
                            "bins": bins, "vseed": rng.randrange(1 << 30),
                            "shape": rng.choice(["noise", "flat", "ramp", "spike", "ints"])})
                if rng.random() < 0.5:
                    # round 8: straight away a second spectrum with the same binning and the same total (a spike elsewhere, the
                    # same numbers in another order), half of the time written into the very Spectrum object used before
                    o = dict(ops[-1], vseed=rng.randrange(1 << 30), shape=rng.choice(["spike", "ints", ops[-1]["shape"]]))
                    o["reverse"] = o["shape"] == ops[-1]["shape"] and o["shape"] != "spike"
                    if o["reverse"]:
                        o["vseed"] = ops[-1]["vseed"]
                    o["reuse"] = rng.random() < 0.5
                    if ops[-1]["shape"] == "ints" and o["shape"] == "ints" and not o["reverse"]:
                        o["perm_of"] = ops[-1]["vseed"]
                    ops.append(o)
        return {"config": cfg, "ops": ops}

    def _value(self, rng, kind, a, cfg):
        if a == "name":
            if rng.random() < 0.4:
                # the empty default name, and names that also occur inside filter / pipeline names ("f0", ": ", "0" ...)
                return rng.choice(["", "", "f", "g", "0", "1", "2", ": ", "f1", "g0", "n", "n1"])
            return "n%d" % rng.randrange(100)
        if a in ("min_bins_per_pixel", "min_bins_per_window"):
            return rng.choice([1, 2, 3, 5, 10, 25])
        if a == "wavelength_to_pixel":
            if rng.random() < 0.25:
                return gen_nested(rng)
            return [gen_edges(rng) for _ in range(rng.randint(1, 3))]
        if a == "filters":
            n = len(cfg["pool"])
            return [rng.randrange(n) for _ in range(rng.randint(1, 4))]
        if a == "accommodated_spectra":
            return gen_acc(rng)
        return gen_ct(rng)[a]

    def _invalid(self, rng, kind, a):
        if a == "name":
            return None
        if a in ("min_bins_per_pixel", "min_bins_per_window", "diffraction_order"):
            return rng.choice([0, -1, -10])
        if a == "wavelength_to_pixel":
            good = gen_edges(rng)
            return rng.choice([[gen_bad_edges(rng)], [good, gen_bad_edges(rng)]])
        if a == "filters":
            return "notafilter"
        if a == "accommodated_spectra":
            return rng.choice([[[-400.0, 8]], [[400.0, 0]], [[400.0, 8], [0.0, 4]]])
        return rng.choice([0.0, -1.0, -2.5e-3])

    # ------------------------------------------------------------------ construction
    def _construct(self, c, spec):
        k = c.kind
        if k == "spectrometer":
            return Spectrometer([list(e) for e in spec["wavelength_to_pixel"]], spec["min_bins_per_pixel"], spec["name"])
        if k == "czerny":
            return CzernyTurnerSpectrometer(spec["diffraction_order"], spec["grating"], spec["focal_length"],
                                            spec["pixel_spacing"], spec["diffraction_angle"],
                                            [list(p) for p in spec["accommodated_spectra"]],
                                            spec["min_bins_per_pixel"], spec["name"])
        return Polychromator([c.pool[i] for i in spec["filters"]], spec["min_bins_per_window"], spec["name"])

    def start(self, cfg, env):
        c = Ctx()
        c.kind = cfg["kind"]
        c.spec = {k: (list(v) if isinstance(v, list) else v) for k, v in cfg["spec"].items()}
        c.pool = [make_filter(fs) for fs in cfg.get("pool", [])]
        c.poolspec = list(cfg.get("pool", []))
        c.obj = self._construct(c, c.spec)
        c.warm = set()
        c.stale_risk = set()
        c.handed = {}
        c.held = []
        env.stats.add("kinds", c.kind)
        return c

    def _retype(self, attr, value, how):
        """The same value in another legal representation (numpy scalars / arrays, tuples)."""
        if how == "numpy":
            if isinstance(value, bool):
                return value
            if isinstance(value, int):
                return np.int64(value)
            if isinstance(value, float):
                return np.float64(value)
            if attr == "wavelength_to_pixel":
                return [np.array(v, dtype=np.float64) for v in value]
            if attr == "accommodated_spectra":
                return [(np.float64(p[0]), np.int64(p[1])) for p in value]
        if how == "int" and attr == "accommodated_spectra":
            # integer-valued wavelengths written as Python ints (400 instead of 400.0)
            return [(int(p[0]) if float(p[0]) == int(p[0]) else p[0], p[1]) for p in value]
        if how == "float32" and attr == "accommodated_spectra":
            return [(np.float32(p[0]), p[1]) for p in value]
        if how == "tuple" and isinstance(value, list) and attr in ("wavelength_to_pixel", "accommodated_spectra"):
            return tuple(tuple(v) for v in value)
        return value

    def _apply(self, c, obj, attr, value, subject=False):
        if attr == "filters" and isinstance(value, list):
            value = [c.pool[i % len(c.pool)] for i in value]
            if subject:
                c.handed[attr] = ("list", value, None)
        elif attr == "wavelength_to_pixel" and subject and isinstance(value, list) and value \
                and all(isinstance(v, list) and v and all(isinstance(x, float) for x in v) for v in value):
            # hand over float64 ndarray *views* of one base buffer the caller keeps (rows of a calibration table)
            base = np.zeros((len(value), max(len(v) for v in value)), dtype=np.float64)
            views = []
            for r, v in enumerate(value):
                base[r, :len(v)] = v
                views.append(base[r, :len(v)])
            c.handed["wavelength_to_pixel"] = ("ndarray", base, views)
            value = views
        elif isinstance(value, list):
            value = [list(v) if isinstance(v, list) else v for v in value]
            if subject:
                c.handed[attr] = ("list", value, None)
        setattr(obj, attr, value)

    def _param_getters(self, c, obj):
        out = {}
        for a in c.spec:
            out[a] = getattr(obj, a)
        return out

    def _norm(self, c, a, v):
        """Normalise a reported parameter into the specification's value domain."""
        if a == "filters":
            return [c.pool.index(f) if f in c.pool else -1 for f in v]
        if a == "wavelength_to_pixel":
            return [[float(x) for x in arr] for arr in v]
        if a == "accommodated_spectra":
            return [[float(p[0]), int(p[1])] for p in v]
        return v

    def _check_params(self, c, obj, spec, who):
        for a, v in self._param_getters(c, obj).items():
            got = self._norm(c, a, v)
            want = spec[a]
            if a == "wavelength_to_pixel" and c.kind == "czerny":
                continue
            if isinstance(want, float):
                ok = close(float(got), want, 1e-12)
            elif a == "filters":
                ok = got == [i % len(c.pool) for i in want]
            elif a == "accommodated_spectra":
                ok = got == [[float(p[0]), int(p[1])] for p in want]
            else:
                ok = got == want
            if not ok:
                raise Violation("reported-parameter", "%s.%s" % (c.kind, a), "%s getter returns %r, specification holds %r" % (who, got, want))

    def _read(self, obj, what):
        """One read: returns ("ok", comparable value) or ("raised", exception type name)."""
        try:
            if what == "create_pipelines":
                v = [(type(p).__name__, p.name, id(getattr(p, "filter", None)) if getattr(p, "filter", None) is not None else 0)
                     for p in obj.create_pipelines()]
            elif what == "pipeline_classes":
                v = [cl.__name__ for cl in obj.pipeline_classes]
            elif what == "pipeline_kwargs":
                v = [sorted((k, id(x) if k == "filter" else x) for k, x in d.items()) for d in obj.pipeline_kwargs]
            elif what in ("wavelengths", "wavelength_to_pixel"):
                v = [np.array(a, dtype=float) for a in getattr(obj, what)]
            elif what == "spectral_bins":
                v = getattr(obj, what)
                if not isinstance(v, (int, np.integer)):
                    return "ok", ("non-int", repr(v))
                v = int(v)
            else:
                v = float(getattr(obj, what))
            return "ok", v
        except Exception as e:
            return "raised", type(e).__name__

    def _same(self, a, b):
        if isinstance(a, list) and a and isinstance(a[0], np.ndarray):
            return len(a) == len(b) and all(x.shape == y.shape and bool(np.all((x == y) | (np.isnan(x) & np.isnan(y))))
                                            for x, y in zip(a, b))
        if isinstance(a, float):
            return a == b or (a != a and b != b)
        return a == b

    def _layout(self, obj):
        try:
            w2p = [np.array(a, dtype=float) for a in obj.wavelength_to_pixel]
        except Exception:
            return None
        for a in w2p:
            if a.size < 2 or not np.all(np.isfinite(a)) or np.any(np.diff(a) <= 0):
                return None
        return w2p

    def _invariants(self, c, obj, env):
        if c.kind == "polychromator":
            fl = list(obj.filters)
            if not fl:
                return
            lo, hi, bins = obj.min_wavelength, obj.max_wavelength, obj.spectral_bins
            narrow = min(f.window for f in fl) / obj.min_bins_per_window
            for f in fl:
                # the filter's true range comes from the table it was built from, not from what it reports
                fs = c.poolspec[c.pool.index(f)] if f in c.pool else None
                if fs is None:
                    flo, fhi = f.min_wavelength, f.max_wavelength
                elif fs["type"] == "trap":
                    flo, fhi = fs["cw"] - 0.5 * fs["window"], fs["cw"] + 0.5 * fs["window"]
                else:
                    flo, fhi = min(fs["wl"]), max(fs["wl"])
                if not (lo <= flo + 1e-9 and fhi - 1e-9 <= hi):
                    raise Violation("range-covers", c.kind, "filter %r transmits on [%r, %r], outside the range [%r, %r]" % (
                        f.name, flo, fhi, lo, hi))
                narrow = min(narrow, (fhi - flo) / obj.min_bins_per_window * (1 + 1e-9))
        else:
            w2p = self._layout(obj)
            if w2p is None:
                env.probe("non_monotone_layout_skipped")
                return
            lo, hi, bins = obj.min_wavelength, obj.max_wavelength, obj.spectral_bins
            narrow = min(float(np.diff(a).min()) for a in w2p) / obj.min_bins_per_pixel
            for a in w2p:
                if not (lo <= a[0] and a[-1] <= hi):
                    raise Violation("range-covers", c.kind, "pixel array [%r, %r] outside range [%r, %r]" % (a[0], a[-1], lo, hi))
        if not (isinstance(bins, (int, np.integer)) and bins >= 1):
            raise Violation("bin-width", c.kind, "spectral_bins = %r" % (bins,))
        if (hi - lo) / bins > narrow * (1 + 1e-9):
            raise Violation("bin-width", c.kind, "bin width %r exceeds narrowest pixel / min_bins = %r" % ((hi - lo) / bins, narrow))
        env.probe("invariants_checked")

    # ------------------------------------------------------------------ steps
    def step(self, c, op, env):
        k = op["op"]
        out = "ok"
        if k == "set.nudge":
            # round 8: a correction far smaller than anything a "did the value change?" test with a tolerance would notice,
            # possibly many in a row (a fine scan); each one is an ordinary assignment of the attribute's current value * (1 + rel)
            a = op["attr"]
            if a not in c.spec:
                return "noop"
            for _ in range(op["n"]):
                cur = c.spec[a]
                if isinstance(cur, float):
                    v = cur * (1.0 + op["rel"])
                elif a == "wavelength_to_pixel":
                    v = [[x * (1.0 + op["rel"]) for x in e] for e in cur]
                elif a == "accommodated_spectra":
                    v = [[p[0] * (1.0 + op["rel"]), p[1]] for p in cur]
                else:
                    return "noop"
                out = self.step(c, {"op": "set", "attr": a, "value": v, "as": "plain"}, env)
            env.probe("nudged")
            return out
        if k == "set":
            a = op["attr"]
            if a not in c.spec:
                return "noop"
            try:
                how = op.get("as", "plain")
                if how == "generator" and isinstance(op["value"], list) and a in ("filters", "accommodated_spectra", "wavelength_to_pixel"):
                    # a one-shot iterable: whatever validation the setter does must not use it up
                    items = [c.pool[i % len(c.pool)] for i in op["value"]] if a == "filters" else [list(v) for v in op["value"]]
                    setattr(c.obj, a, (x for x in items))
                    c.handed.pop(a, None)
                    env.probe("value_given_as_generator")
                elif how != "plain" and a != "filters":
                    setattr(c.obj, a, self._retype(a, op["value"], how))
                    c.handed.pop(a, None)
                    env.probe("value_given_as_" + how)
                else:
                    self._apply(c, c.obj, a, op["value"], subject=True)
                c.spec[a] = op["value"]
                if how == "float32" and a == "accommodated_spectra":
                    # the value handed over *is* the single-precision number
                    c.spec[a] = [[float(np.float32(p[0])), p[1]] for p in op["value"]]
            except Exception as e:
                out = "raised:" + type(e).__name__
                for aa, v in self._param_getters(c, c.obj).items():
                    if not (aa == "wavelength_to_pixel" and c.kind == "czerny"):
                        nv = self._norm(c, aa, v)
                        # keep the specification's own float when the getter merely round-trips it
                        # (diffraction_angle is stored in radians and reported in degrees)
                        if isinstance(nv, float) and isinstance(c.spec[aa], float) and close(nv, c.spec[aa], 1e-12):
                            continue
                        c.spec[aa] = nv
                if op.get("invalid"):
                    env.fault_fired("reject")
            else:
                if op.get("invalid"):
                    env.probe("invalid_value_accepted")
            if op.get("invalid"):
                env.fault_armed("reject")
            if c.warm:
                c.stale_risk |= c.warm
            self._check_params(c, c.obj, c.spec, "subject")
            env.event(k, out.split(":")[0], a + "|" + ",".join(sorted(c.warm)))
        elif k == "read":
            try:
                twin = self._construct(c, c.spec)
            except Exception as e:
                raise Violation("unconstructible-state", c.kind, "subject reports parameters %r from which no instrument can be "
                                "constructed: %s: %s" % (c.spec, type(e).__name__, e))
            if c.kind != "polychromator" and self._layout(twin) is None:
                # parameters outside the physical domain of the diffraction formula (NaN / non-increasing pixel edges):
                # outside the property's quantifier ("all monotone pixel-edge arrays"); nothing is read or compared
                env.probe("out_of_domain_read_skipped")
                env.event(k, "domain")
                return "domain"
            for w in op["what"]:
                if w == "wavelength_to_pixel" and c.kind == "polychromator" or w == "wavelengths" and c.kind == "polychromator":
                    continue
                ha, va = self._read(c.obj, w)
                hb, vb = self._read(twin, w)
                if ha != hb or not self._same(va, vb):
                    raise Violation("stale-vs-fresh", "%s.%s" % (c.kind, w),
                                    "subject %s %r, instrument constructed with the final parameters %s %r (spec %r)" % (
                                        ha, va, hb, vb, c.spec))
                if w in c.stale_risk:
                    env.nontrivial = True
                c.warm.add(w)
                if isinstance(va, float):
                    env.digest.add(va)
            self._check_params(c, c.obj, c.spec, "subject")
            try:
                self._invariants(c, c.obj, env)
            except Violation:
                raise
            except Exception as e:
                # invariants read the lazily computed settings; a failure there must be shared with the twin
                ht, _ = self._read(twin, "spectral_bins")
                if ht == "ok":
                    raise Violation("stale-vs-fresh", "%s.invariants" % c.kind, "reading settings raised %s: %s on the subject "
                                    "only" % (type(e).__name__, e))
            c.warm.update(["min_wavelength", "max_wavelength", "spectral_bins"])
            env.event(k, "ok", ",".join(op["what"]))
        elif k == "set.same_extent":
            if c.kind != "spectrometer":
                return "noop"
            import random as _random
            r = _random.Random(op["seed"])
            new = []
            for arr in c.spec["wavelength_to_pixel"]:
                arr = [float(x) for x in arr]
                if len(arr) < 3:
                    new.append(arr)
                    continue
                inner = sorted(r.uniform(arr[0], arr[-1]) for _ in range(len(arr) - 2))
                cand = [arr[0]] + inner + [arr[-1]]
                new.append(cand if all(b > a for a, b in zip(cand, cand[1:])) else arr)
            self._apply(c, c.obj, "wavelength_to_pixel", new, subject=True)
            c.spec["wavelength_to_pixel"] = new
            if c.warm:
                c.stale_risk |= c.warm
            self._check_params(c, c.obj, c.spec, "subject")
            env.probe("same_extent_recalibration")
            env.event(k, "ok", "|" + ",".join(sorted(c.warm)))
        elif k == "caller.mutate":
            h = c.handed.get(op["attr"])
            if h is None or op["attr"] not in c.spec:
                return "noop"
            if h[0] == "ndarray":
                h[1][:] = h[1] * op["scale"]            # the caller rescales its own calibration table in place
            else:
                lst, edit = h[1], op.get("edit", "item")
                if edit == "append" and lst:
                    lst.append(list(lst[0]) if isinstance(lst[0], list) else lst[0])
                elif edit == "delete" and len(lst) > 1:
                    del lst[0]
                elif edit == "swap" and len(lst) > 1:
                    lst[0], lst[-1] = lst[-1], lst[0]
                else:
                    for item in lst:
                        if isinstance(item, list) and item and isinstance(item[0], float):
                            item[0] = item[0] * op["scale"]
            # the instrument copied what it was given: nothing may change (specification untouched)
            self._check_params(c, c.obj, c.spec, "subject")
            env.probe("caller_container_mutated")
            env.event(k, "ok", op["attr"])
        elif k == "edit.reassign":
            a = op["attr"]
            h = c.handed.get(a)
            if h is None or h[0] != "list" or a not in c.spec:
                return "noop"
            lst = h[1]
            if a == "filters":
                new = [c.pool[i % len(c.pool)] for i in op["value"]]
            else:
                new = [list(v) if isinstance(v, list) else v for v in op["value"]]
            del lst[:]
            lst.extend(new)                                  # edited in place ...
            try:
                setattr(c.obj, a, lst)                       # ... and the very same object assigned again
                c.spec[a] = op["value"]
            except Exception as e:
                out = "raised:" + type(e).__name__
            if c.warm:
                c.stale_risk |= c.warm
            self._check_params(c, c.obj, c.spec, "subject")
            env.probe("same_object_reassigned_after_edit")
            env.event(k, out.split(":")[0], a)
        elif k == "calibrate":
            if c.kind == "polychromator":
                return "noop"
            out = self._calibrate(c, op, env)
            env.event(k, out.split(":")[0])
        else:
            return "noop"
        env.state("%s|w%d|s%d" % (c.kind, len(c.warm), len(c.stale_risk)), k + ":" + op.get("attr", ""))
        return out

    def _spectrum(self, op, lo, hi, reuse=None):
        bins = op["bins"]
        if reuse is not None and (reuse.min_wavelength, reuse.max_wavelength, reuse.bins) == (lo, hi, bins):
            s = reuse                        # the caller refills the Spectrum object of the previous calibration in place
        else:
            s = Spectrum(lo, hi, bins)
        rs = np.random.RandomState(op["vseed"])
        if op["shape"] == "noise":
            s.samples[:] = rs.uniform(0, 10, bins)
        elif op["shape"] == "flat":
            s.samples[:] = 3.25
        elif op["shape"] == "ramp":
            s.samples[:] = np.linspace(0.0, 7.0, bins)
        elif op["shape"] == "ints":
            # integer-valued samples: any re-ordering has exactly the same sum
            if op.get("perm_of") is not None:
                s.samples[:] = rs.permutation(np.random.RandomState(op["perm_of"]).randint(0, 12, bins).astype(float))
            else:
                s.samples[:] = rs.randint(0, 12, bins).astype(float)
        else:
            s.samples[:] = 0.0
            s.samples[rs.randint(bins)] = 100.0
        if op.get("reverse"):
            s.samples[:] = np.array(s.samples)[::-1]
        return s

    def _calibrate(self, c, op, env):
        try:
            twin = self._construct(c, c.spec)
        except Exception as e:
            raise Violation("unconstructible-state", c.kind, "spec %r: %s" % (c.spec, e))
        h, lo = self._read(twin, "min_wavelength")
        h2, hi = self._read(twin, "max_wavelength")
        w2p = self._layout(twin)
        if h != "ok" or h2 != "ok" or w2p is None or not (math.isfinite(lo) and math.isfinite(hi) and lo < hi):
            return "noop"
        slo, shi = lo - op["lo_off"], hi + op["hi_off"]
        if not (0 < slo < shi):
            return "noop"
        covers = slo <= lo and shi >= hi
        sp = self._spectrum(op, slo, shi, getattr(c, "last_source", None) if op.get("reuse") else None)
        if sp is getattr(c, "last_source", None):
            env.probe("calibrate_source_refilled_in_place")
        c.last_source = sp
        try:
            res = c.obj.calibrate(sp)
        except Exception as e:
            if covers:
                raise Violation("calibrate-raised", c.kind, "spectrum [%r, %r] covers [%r, %r] but calibrate raised %s: %s" % (
                    slo, shi, lo, hi, type(e).__name__, e))
            if not isinstance(e, ValueError):
                raise Violation("calibrate-raised", c.kind, "narrower spectrum: expected ValueError, got %s" % type(e).__name__)
            env.fault_armed("reject")
            env.fault_fired("reject")
            c.warm.update(["min_wavelength", "max_wavelength", "spectral_bins"])
            return "raised:ValueError"
        if not covers:
            raise Violation("calibrate-accepted-narrow", c.kind, "spectrum [%r, %r] does not cover [%r, %r] but was calibrated" % (slo, shi, lo, hi))
        if len(res) != len(w2p):
            raise Violation("calibrate-shape", c.kind, "%d calibrated spectra for %d pixel arrays" % (len(res), len(w2p)))
        scale = float(np.abs(sp.samples).max()) or 1.0
        for arr, edges in zip(res, w2p):
            arr = np.asarray(arr, dtype=float)
            if arr.shape != (edges.size - 1,):
                raise Violation("calibrate-shape", c.kind, "calibrated shape %r for %d pixels" % (arr.shape, edges.size - 1))
            widths = np.diff(edges)
            total = 0.0
            for i in range(arr.size):
                want = sp.integrate(float(edges[i]), float(edges[i + 1]))
                got = arr[i] * widths[i]
                total += got
                if abs(got - want) > RTOL * abs(want) + 1e-12 * scale * widths[i]:
                    raise Violation("calibrate-conserves", c.kind, "pixel %d [%r, %r]: value*width = %r, spectrum integral = %r" % (
                        i, edges[i], edges[i + 1], got, want))
            whole = sp.integrate(float(edges[0]), float(edges[-1]))
            if abs(total - whole) > 1e-9 * abs(whole) + 1e-11 * scale * (edges[-1] - edges[0]):
                raise Violation("calibrate-conserves", c.kind, "sum over pixels %r, integral over the array %r" % (total, whole))
            env.digest.add(float(total))
        # results handed out earlier belong to the caller: a later calibration must not rewrite them
        for old_res, old_copy in c.held:
            for a, b in zip(old_res, old_copy):
                if not np.array_equal(np.asarray(a), b):
                    raise Violation("calibrate-result-overwritten", c.kind, "an array returned by an earlier calibrate() call was modified by a later one")
        c.held = (c.held + [(res, [np.array(a, dtype=float, copy=True) for a in res])])[-3:]
        c.warm.update(["min_wavelength", "max_wavelength", "spectral_bins"])
        if c.stale_risk & {"min_wavelength", "max_wavelength", "spectral_bins"}:
            env.nontrivial = True
        env.probe("calibrations_checked")
        return "ok"

    def finish(self, c, env):
        self.step(c, {"op": "read", "what": list(READS)}, env)

    def simplify_op(self, op):
        out = []
        if op["op"] == "read" and len(op["what"]) > 1:
            for w in op["what"]:
                out.append({"op": "read", "what": [w]})
        return out
