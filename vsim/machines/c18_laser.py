"""C18 — laser profiles integrate to the pulse energy and track their parameters.

Real: UniformEnergyDensity, ConstantBivariateGaussian, TrivariateGaussian, GaussianBeamAxisymmetric,
ConstantSpectrum, GaussianSpectrum, Laser (geometry / notification path), raysect primitives.
Stub: nothing but the object-lifetime seam (gc disabled, explicit collect / drop operations).

History = sequence of public setters (valid and refused values), reads, profile swaps on a Laser node,
drops and collections.  Oracle = object freshly constructed from the value specification + the value
specification itself for every reported parameter + conservation invariants in every reached state.
"""

import gc
import math

import numpy as np
from raysect.core import Vector3D, translate
from raysect.optical import World
from cherab.core.laser import Laser
from cherab.core.model.laser import (UniformEnergyDensity, ConstantBivariateGaussian, TrivariateGaussian,
                                     GaussianBeamAxisymmetric, ConstantSpectrum, GaussianSpectrum)

from ..core import Violation, close
from ..machine import Machine

C_LIGHT = 299792458.0
RTOL = 1e-9

PROFILE_ATTRS = {
    "uniform": ["energy_density", "laser_length", "laser_radius"],
    "bivariate": ["pulse_energy", "pulse_length", "laser_radius", "laser_length", "stddev_x", "stddev_y"],
    "trivariate": ["pulse_energy", "pulse_length", "mean_z", "laser_length", "laser_radius", "stddev_x", "stddev_y"],
    "gaussbeam": ["pulse_energy", "pulse_length", "laser_length", "laser_radius", "waist_z", "stddev_waist",
                  "laser_wavelength"],
}
SPECTRUM_ATTRS = {
    "constspec": ["min_wavelength", "max_wavelength", "bins"],
    "gaussspec": ["min_wavelength", "max_wavelength", "bins", "mean", "stddev"],
}
CLASSES = {"uniform": UniformEnergyDensity, "bivariate": ConstantBivariateGaussian, "trivariate": TrivariateGaussian,
           "gaussbeam": GaussianBeamAxisymmetric, "constspec": ConstantSpectrum, "gaussspec": GaussianSpectrum}


def logu(rng, lo, hi):
    return float("%.6g" % math.exp(rng.uniform(math.log(lo), math.log(hi))))


SPECIAL = {"energy_density": [1.0], "laser_length": [1.0], "laser_radius": [0.05], "pulse_energy": [1.0], "pulse_length": [1.0],
           "stddev_x": [0.1, 0.01], "stddev_y": [0.1, 0.01], "mean_z": [0.0, 1.0], "waist_z": [0.0], "stddev_waist": [0.1, 0.01, 1e-3],
           "laser_wavelength": [1e3], "stddev": [1.0], "mean": [1.0]}


def gen_value(rng, attr):
    # now and then exactly a constructor default or an internal placeholder of the class (coincidences with "unchanged" guards)
    if attr in SPECIAL and rng.random() < 0.06:
        return rng.choice(SPECIAL[attr])
    if attr == "energy_density":
        return logu(rng, 1e-3, 1e6)
    if attr == "laser_length":
        return logu(rng, 0.02, 5.0)
    if attr == "laser_radius":
        if rng.random() < 0.05:
            return logu(rng, 1e-3, 4e-3)        # a very thin laser: up to a few thousand segments
        return logu(rng, 0.004, 0.5)
    if attr == "pulse_energy":
        return logu(rng, 1e-3, 10.0)
    if attr == "pulse_length":
        return logu(rng, 1e-10, 1e-7)
    if attr in ("stddev_x", "stddev_y"):
        return logu(rng, 1e-3, 0.1)
    if attr == "mean_z":
        return round(rng.uniform(-2, 3), 4)
    if attr == "waist_z":
        return round(rng.uniform(-1, 3), 4)
    if attr == "stddev_waist":
        return logu(rng, 1e-4, 0.02)
    if attr == "laser_wavelength":
        return logu(rng, 300, 11000)
    if attr == "min_wavelength":
        return round(rng.uniform(100, 2000), 3)
    if attr == "max_wavelength":
        return round(rng.uniform(100, 2100), 3)
    if attr == "bins":
        return rng.choice([1, 1, 2, 3, 5, 8, 13, 40, rng.randint(1, 60)])
    if attr == "mean":
        return round(rng.uniform(100, 2100), 3)
    if attr == "stddev":
        return logu(rng, 1e-3, 50.0)
    raise KeyError(attr)


def gen_invalid(rng, attr):
    if attr == "bins":
        return rng.choice([0, -1, -7])
    if attr in ("mean_z", "waist_z"):
        return None
    return rng.choice([0.0, -1.0, -1e-9, -123.5])


def gen_spec(rng, kind):
    if kind in PROFILE_ATTRS:
        spec = {a: gen_value(rng, a) for a in PROFILE_ATTRS[kind]}
        v = [rng.uniform(-1, 1) for _ in range(3)]
        if sum(abs(c) for c in v) < 0.1:
            v = [0.0, 1.0, 0.0]
        spec["polarization"] = [round(c, 4) for c in v]
        return spec
    lo = round(rng.uniform(100, 2000), 3)
    spec = {"min_wavelength": lo, "max_wavelength": round(lo + logu(rng, 0.01, 60.0), 4), "bins": gen_value(rng, "bins")}
    if kind == "gaussspec":
        spec["mean"] = round(rng.choice([lo + rng.uniform(0, 30), rng.uniform(100, 2100)]), 3)
        spec["stddev"] = logu(rng, 1e-3, 50.0)
    return spec


def construct(kind, spec):
    cls = CLASSES[kind]
    if kind in PROFILE_ATTRS:
        kw = {a: spec[a] for a in PROFILE_ATTRS[kind]}
        kw["polarization"] = Vector3D(*spec["polarization"])
        return cls(**kw)
    if kind == "constspec":
        return cls(spec["min_wavelength"], spec["max_wavelength"], spec["bins"])
    return cls(spec["min_wavelength"], spec["max_wavelength"], spec["bins"], spec["mean"], spec["stddev"])


def geometry_descr(prims):
    out = []
    for p in prims:
        m = p.transform
        out.append((float(m[2, 3]), float(p.height), float(p.radius), float(m[0, 3]), float(m[1, 3]),
                    float(m[0, 0]), float(m[1, 1]), float(m[2, 2])))
    return out


class Ctx:
    pass


class LaserMachine(Machine):
    pid = "C18"
    title = "Laser profiles integrate to the pulse energy and track their parameters"
    quick_runs = 10000
    thorough_runs = 400000
    components_real = ["cherab.core.model.laser profiles and spectra (compiled)", "cherab.core.laser.Laser node, LaserProfile, "
                       "LaserSpectrum", "cherab.core.utility.Notifier", "raysect primitives and scene graph"]
    components_stub = ["object lifetime: gc disabled, explicit gc/drop operations decide when detached profiles die"]
    assumptions = [
        "parameters are finite floats inside the physical ranges listed in gen_value(); NaN/inf inputs are not generated",
        "normalisation invariants use trapezoid quadrature on a fixed tensor grid over +-8 sigma (error << 1e-9 for Gaussians)",
        "a setter that raises is re-synchronised by reading the public getters back (no atomicity assumed); the resulting state "
        "must still equal an object constructed from the reported parameters",
    ]
    rule = ("cases = seeded (object kind, initial parameters, op list of setters/refused setters/reads/invariant checks/"
            "laser attach-swap-drop-gc); abstraction = sequence of (op kind, attribute, outcome); non-trivial iff a read or "
            "check follows a setter that itself follows an earlier read (a derived value could have gone stale)")

    # ------------------------------------------------------------------ generation
    def generate(self, rng, tier):
        kind = rng.choice(["uniform", "bivariate", "trivariate", "gaussbeam", "constspec", "gaussspec",
                           "bivariate", "gaussspec"])
        is_profile = kind in PROFILE_ATTRS
        attrs = (PROFILE_ATTRS if is_profile else SPECTRUM_ATTRS)[kind]
        config = {"kind": kind, "spec": gen_spec(rng, kind), "laser": is_profile and rng.random() < 0.5,
                  "points": [[round(rng.gauss(0, 0.02), 5), round(rng.gauss(0, 0.02), 5), round(rng.uniform(-1, 4), 4)]
                             for _ in range(6)] + [[0.0, 0.0, 0.0], [0.0, 0.0, 1.0]],
                  "xs": []}
        if not is_profile:
            s = config["spec"]
            config["xs"] = [round(rng.uniform(s["min_wavelength"] - 5, s["max_wavelength"] + 5), 4) for _ in range(6)]
        if config["laser"]:
            # round 8: the user parents a primitive of their own (an alignment target) to the laser node in some runs
            config["rider"] = rng.random() < 0.4
            config["alt"] = {"kind": rng.choice(list(PROFILE_ATTRS)), }
            config["alt"]["spec"] = gen_spec(rng, config["alt"]["kind"])
        nops = rng.randint(3, 30)
        ops = []
        focus = rng.sample(attrs, rng.randint(1, len(attrs)))      # swarm: subset of attributes driven in this run
        for _ in range(nops):
            u = rng.random()
            if u < 0.42:
                a = rng.choice(focus)
                ops.append({"op": "set", "attr": a, "value": gen_value(rng, a)})
            elif u < 0.46:
                # exactly the current value of a sibling attribute (an elliptical profile made circular, mean := min, ...)
                a = rng.choice(focus)
                sib = {"stddev_x": "stddev_y", "stddev_y": "stddev_x", "laser_length": "laser_radius", "laser_radius": "laser_length",
                       "mean_z": "laser_length", "waist_z": "laser_length", "mean": "min_wavelength", "stddev": "stddev",
                       "pulse_energy": "pulse_energy"}.get(a)
                if sib and sib in attrs:
                    ops.append({"op": "set", "attr": a, "from": sib})
            elif u < 0.48 and not is_profile:
                a = rng.choice(focus)
                ops.append({"op": "clone.set", "attr": a, "value": gen_value(rng, a)})
            elif u < 0.54:
                a = rng.choice(focus)
                v = gen_invalid(rng, a)
                if v is not None:
                    ops.append({"op": "set", "attr": a, "value": v, "invalid": True})
            elif u < 0.58 and is_profile:
                v = [round(rng.uniform(-1, 1), 4) for _ in range(3)]
                if sum(abs(c) for c in v) > 0.1:
                    ops.append({"op": "polarize", "v": v})
            elif u < 0.78:
                ops.append({"op": "read"})
            elif u < 0.86:
                ops.append({"op": "check"})
            elif config["laser"]:
                w = rng.random()
                if w < 0.12:
                    ops.append({"op": "laser.reassign"})
                elif w < 0.22:
                    ops.append({"op": "laser.recreate", "keep": rng.random() < 0.4, "gc_first": rng.random() < 0.6})
                elif w < 0.30:
                    ops.append({"op": "laser.second"})
                elif w < 0.45:
                    ops.append({"op": "laser.swap", "keep": rng.random() < 0.6})
                elif w < 0.55:
                    a = rng.choice(["laser_length", "laser_radius"])
                    ops.append({"op": "old.set", "attr": a, "value": gen_value(rng, a)})
                elif w < 0.8:
                    ops.append({"op": "gc"})
                else:
                    ops.append({"op": "laser.geometry"})
            else:
                ops.append({"op": "read"})
        return {"config": config, "ops": ops}

    # ------------------------------------------------------------------ execution
    def start(self, cfg, env):
        c = Ctx()
        c.cfg = cfg
        c.kind = cfg["kind"]
        c.spec = dict(cfg["spec"])
        c.is_profile = c.kind in PROFILE_ATTRS
        c.obj = construct(c.kind, c.spec)
        c.world = None
        c.laser = None
        c.old = []              # detached profiles still referenced by "the user": (kind, obj)
        c.old_lasers = []
        c.others = []           # further lasers alive in the same world: (laser, kind, spec of its own profile)
        c.read_since_set = False
        c.set_after_read = False
        c.last_point = tuple(cfg["points"][0])
        c.alt = {"kind": cfg["alt"]["kind"], "spec": dict(cfg["alt"]["spec"])} if cfg.get("alt") else None
        if cfg.get("laser"):
            c.world = World()
            c.laser = Laser(parent=c.world, transform=translate(0.1, 0.2, 0.3), name="laser")
            self._attach_rider(c)
            c.laser.laser_profile = c.obj
        env.stats.add("kinds", c.kind)
        return c

    def _attach_rider(self, c):
        c.rider = None
        if c.cfg.get("rider"):
            from raysect.primitive import Sphere
            c.rider = Sphere(0.01, parent=c.laser, transform=translate(0.0, 0.0, -0.5), name="alignment target")

    def _getters(self, c, obj, kind):
        attrs = (PROFILE_ATTRS if kind in PROFILE_ATTRS else SPECTRUM_ATTRS)[kind]
        return {a: getattr(obj, a) for a in attrs}

    def _reads(self, c, obj, kind):
        """All observable reads of an object, as a flat dict name -> float/array/list."""
        out = {}
        if kind in PROFILE_ATTRS:
            for i, p in enumerate(c.cfg["points"]):
                out["density@%d" % i] = float(obj.get_energy_density(*p))
                if obj is c.obj:
                    c.last_point = tuple(p)
                v = obj.get_polarization(*p)
                out["polarization@%d" % i] = [v.x, v.y, v.z]
                v = obj.get_pointing(*p)
                out["pointing@%d" % i] = [v.x, v.y, v.z]
            out["geometry"] = geometry_descr(obj.generate_geometry())
        else:
            # the accessors the library itself uses (cpdef / Function1D call) come first: a read through a Python property
            # must not be what brings the binned spectrum up to date
            out["get_delta_wavelength"] = float(obj.get_delta_wavelength())
            for i, x in enumerate(c.cfg["xs"]):
                out["spectrum(%d)" % i] = float(obj(x))
            out["psd"] = np.array(obj.power_spectral_density, dtype=float)
            out["wavelengths"] = np.array(obj.wavelengths, dtype=float)
            out["delta_wavelength"] = float(obj.delta_wavelength)
            out["get_delta_wavelength.again"] = float(obj.get_delta_wavelength())
        for a, v in self._getters(c, obj, kind).items():
            out["param." + a] = v
        return out

    def _spec_reads(self, c, obj, kind, spec):
        """Reported parameters must equal the value specification (a twin cannot see a getter wrong on both sides)."""
        for a, v in self._getters(c, obj, kind).items():
            if not (v == spec[a]):
                raise Violation("reported-parameter", "%s.%s" % (kind, a), "getter returns %r, specification holds %r" % (v, spec[a]))
        if kind in SPECTRUM_ATTRS:
            extra = {"get_min_wavelenth": spec["min_wavelength"], "get_max_wavelenth": spec["max_wavelength"],
                     "get_spectral_bins": spec["bins"]}
            for name, want in extra.items():
                got = getattr(obj, name)()
                if not (got == want):
                    raise Violation("reported-parameter", "%s.%s()" % (kind, name), "returns %r, specification holds %r" % (got, want))
        else:
            want = Vector3D(*spec["polarization"]).normalise()
            got = obj.get_polarization(0.0, 0.0, 0.0)
            if max(abs(got.x - want.x), abs(got.y - want.y), abs(got.z - want.z)) > 1e-12:
                raise Violation("reported-parameter", "%s.polarization" % kind, "get_polarization %r, specification %r" % (got, want))

    def _twin_compare(self, c, obj, kind, spec, env, who="subject"):
        try:
            twin = construct(kind, spec)
        except Exception as e:
            raise Violation("unconstructible-state", "%s" % kind,
                            "%s reports parameters %r from which no object can be constructed: %s: %s" % (
                                who, spec, type(e).__name__, e))
        a = self._reads(c, obj, kind)
        b = self._reads(c, twin, kind)
        for k in a:
            va, vb = a[k], b[k]
            if isinstance(va, np.ndarray):
                ok = va.shape == vb.shape and bool(np.all((np.abs(va - vb) <= RTOL * np.maximum(np.abs(va), np.abs(vb)) + 1e-300)
                                                          | (np.isnan(va) & np.isnan(vb))))
            elif isinstance(va, list):
                fa = np.array(va, dtype=float).ravel()
                fb = np.array(vb, dtype=float).ravel()
                ok = fa.shape == fb.shape and bool(np.all(np.abs(fa - fb) <= RTOL * np.maximum(np.abs(fa), np.abs(fb)) + 1e-15))
            else:
                ok = close(float(va), float(vb), RTOL)
            if not ok:
                raise Violation("stale-vs-fresh", "%s.%s" % (kind, k.split("@")[0].split("(")[0]),
                                "%s %s = %r, freshly constructed object gives %r (spec %r)" % (who, k, va, vb, spec))
            if isinstance(va, float):
                env.digest.add(va)
        env.probe("twin_compared")
        return twin

    # ---- invariants -------------------------------------------------------------
    def _invariants(self, c, obj, kind, spec, env):
        if kind in PROFILE_ATTRS:
            self._inv_geometry(obj, spec, kind)
            if kind == "uniform":
                for p in c.cfg["points"]:
                    v = obj.get_energy_density(*p)
                    if not close(v, spec["energy_density"], 1e-12):
                        raise Violation("uniform-density", kind, "density at %r is %r, energy_density %r" % (p, v, spec["energy_density"]))
            elif kind == "bivariate":
                want = spec["pulse_energy"] / (C_LIGHT * spec["pulse_length"])
                for z in (0.0, 0.37 * spec["laser_length"], spec["laser_length"]):
                    got = self._quad2(obj, z, spec["stddev_x"], spec["stddev_y"])
                    if not close(got, want, 1e-6):
                        raise Violation("cross-section-integral", kind, "z=%g: integral %r, E_p/(c tau) = %r" % (z, got, want))
            elif kind == "gaussbeam":
                want = spec["pulse_energy"] / (C_LIGHT * spec["pulse_length"])
                for z in (0.0, spec["waist_z"], spec["laser_length"], spec["waist_z"] + 0.8):
                    peak = obj.get_energy_density(0.0, 0.0, z)
                    if not (peak > 0 and math.isfinite(peak)):
                        raise Violation("cross-section-integral", kind, "on-axis density at z=%g is %r" % (z, peak))
                    sig = math.sqrt(want / (2 * math.pi * peak))
                    got = self._quad2(obj, z, sig, sig)
                    if not close(got, want, 1e-6):
                        raise Violation("cross-section-integral", kind, "z=%g: integral %r, E_p/(c tau) = %r" % (z, got, want))
            elif kind == "trivariate":
                want = spec["pulse_energy"]
                got = self._quad3(obj, spec["stddev_x"], spec["stddev_y"], spec["pulse_length"] * C_LIGHT, spec["mean_z"])
                if not close(got, want, 1e-6):
                    raise Violation("volume-integral", kind, "integral %r, pulse energy %r" % (got, want))
            env.probe("profile_invariants")
        else:
            self._inv_spectrum(obj, kind, spec)
            env.probe("spectrum_invariants")

    def _quad2(self, obj, z, sx, sy, n=41, k=8.0):
        xs = np.linspace(-k * sx, k * sx, n)
        ys = np.linspace(-k * sy, k * sy, n)
        f = obj.get_energy_density
        tot = 0.0
        for x in xs:
            row = 0.0
            for y in ys:
                row += f(float(x), float(y), z)
            tot += row
        return tot * (xs[1] - xs[0]) * (ys[1] - ys[0])

    def _quad3(self, obj, sx, sy, sz, mz, n=21, k=7.0):
        xs = np.linspace(-k * sx, k * sx, n)
        ys = np.linspace(-k * sy, k * sy, n)
        zs = np.linspace(mz - k * sz, mz + k * sz, n)
        f = obj.get_energy_density
        tot = 0.0
        for x in xs:
            for y in ys:
                for z in zs:
                    tot += f(float(x), float(y), float(z))
        return tot * (xs[1] - xs[0]) * (ys[1] - ys[0]) * (zs[1] - zs[0])

    def _inv_geometry(self, obj, spec, kind, prims=None, who="generate_geometry"):
        prims = obj.generate_geometry() if prims is None else prims
        g = sorted(geometry_descr(prims))
        L, R = spec["laser_length"], spec["laser_radius"]
        if not g:
            raise Violation("segments-tile", kind, "%s returned no segment" % who)
        z = 0.0
        for (z0, h, r, tx, ty, a, b, cc) in g:
            if not close(r, R, 1e-12):
                raise Violation("segments-tile", kind, "%s: segment radius %r, laser_radius %r" % (who, r, R))
            if abs(z0 - z) > 1e-9 * max(L, 1e-3) or tx != 0.0 or ty != 0.0 or (a, b, cc) != (1.0, 1.0, 1.0):
                raise Violation("segments-tile", kind, "%s: segment starts at z=%r (x=%r,y=%r), expected %r; segments %r" % (
                    who, z0, tx, ty, z, g))
            if not h > 0:
                raise Violation("segments-tile", kind, "%s: segment height %r" % (who, h))
            z = z0 + h
        if abs(z - L) > 1e-9 * L:
            raise Violation("segments-tile", kind, "%s: segments end at %r, laser_length %r" % (who, z, L))

    def _inv_spectrum(self, obj, kind, spec):
        lo, hi, n = spec["min_wavelength"], spec["max_wavelength"], spec["bins"]
        psd = np.array(obj.power_spectral_density, dtype=float)
        wl = np.array(obj.wavelengths, dtype=float)
        d = float(obj.delta_wavelength)
        if psd.shape != (n,) or wl.shape != (n,):
            raise Violation("bin-layout", kind, "psd shape %r wavelengths shape %r, bins %d" % (psd.shape, wl.shape, n))
        if not close(d, (hi - lo) / n, 1e-12):
            raise Violation("bin-layout", kind, "delta_wavelength %r, (max-min)/bins %r" % (d, (hi - lo) / n))
        centres = lo + (np.arange(n) + 0.5) * (hi - lo) / n
        if not np.all(np.abs(wl - centres) <= 1e-12 * hi):
            raise Violation("bin-layout", kind, "wavelengths %r are not the bin centres %r" % (wl[:4], centres[:4]))
        edges = lo + np.arange(n + 1) * (hi - lo) / n
        if kind == "constspec":
            want = np.full(n, 1.0 / n)
        else:
            m, s = spec["mean"], spec["stddev"]
            cdf = np.array([0.5 * math.erf((e - m) / (s * math.sqrt(2.0))) for e in edges])
            want = cdf[1:] - cdf[:-1]
        got = psd * d
        # erf differences cancel in the far tails: absolute floor relative to the unit total power
        # the class accumulates its bin edges in floating point: allow each edge to sit 4*n ulp(max) away
        # from the exact one (measured drift is <= n/2 ulp), times the largest density the bin can see
        dens_max = 1.0 / (hi - lo) if kind == "constspec" else 1.0 / (spec["stddev"] * math.sqrt(2 * math.pi))
        edge_err = 4.0 * n * math.ulp(hi)
        tol = 1e-9 * np.abs(want) + 1e-12 + 2.0 * edge_err * dens_max
        bad = np.abs(got - want) > tol
        if bad.any():
            i = int(np.argmax(np.abs(got - want) - tol))
            raise Violation("bin-integral", kind, "bin %d of %d: PSD*delta = %r, integral of the density over the bin = %r "
                                                  "(spec %r)" % (i, n, float(got[i]), float(want[i]), spec))
        if abs(got.sum() - want.sum()) > 1e-9 + 2.0 * edge_err * dens_max:
            raise Violation("bin-integral", kind, "total power %r, expected %r" % (float(got.sum()), float(want.sum())))

    # ---- laser node -------------------------------------------------------------
    def _laser_check(self, c, env):
        if c.laser is None:
            return
        geo = c.laser.get_geometry()
        self._inv_geometry(c.obj, c.spec, c.kind, prims=geo, who="laser.get_geometry()")
        try:
            fresh = sorted(geometry_descr(construct(c.kind, c.spec).generate_geometry()))
        except Exception as e:
            raise Violation("unconstructible-state", c.kind, "attached profile reports parameters %r from which no object can be "
                            "constructed: %s: %s" % (c.spec, type(e).__name__, e))
        got = sorted(geometry_descr(geo))
        if len(fresh) != len(got) or any(not all(close(a, b, 1e-12) for a, b in zip(x, y)) for x, y in zip(got, fresh)):
            raise Violation("laser-geometry-stale", c.kind, "laser holds %r, a fresh profile generates %r" % (got, fresh))
        kids = [k for k in c.laser.children]
        rider = getattr(c, "rider", None)
        if rider is not None:
            if rider.parent is not c.laser:
                raise Violation("laser-rider-lost", c.kind, "a primitive the user parented to the laser node is no longer its child")
            if any(g is rider for g in geo):
                raise Violation("laser-geometry-stale", c.kind, "laser.get_geometry() lists the user's own primitive as a laser segment")
            kids = [k for k in kids if k is not rider]
            env.probe("laser_checked_with_rider")
        if len(kids) != len(geo) or any(g.parent is not c.laser for g in geo):
            raise Violation("laser-geometry-stale", c.kind, "laser has %d children for %d segments" % (len(kids), len(geo)))
        if c.laser.laser_profile is not c.obj:
            raise Violation("laser-geometry-stale", c.kind, "laser.laser_profile is not the attached profile")
        for l2, kind2, spec2 in c.others:
            geo2 = l2.get_geometry()
            self._inv_geometry(l2.laser_profile, spec2, kind2, prims=geo2, who="second laser get_geometry()")
            if len(list(l2.children)) != len(geo2) or any(g.parent is not l2 for g in geo2):
                raise Violation("laser-geometry-stale", kind2, "a second laser with its own profile lost segments: %d children for %d segments" % (
                    len(list(l2.children)), len(geo2)))
        env.probe("laser_geometry_checked")

    # ---- one step ---------------------------------------------------------------
    def step(self, c, op, env):
        k = op["op"]
        out = "ok"
        if k == "set" or k == "polarize":
            if c.read_since_set:
                c.set_after_read = True
            if k == "set" and "from" in op:
                if op["from"] not in c.spec or op["attr"] not in c.spec:
                    return "noop"
                op = dict(op, value=c.spec[op["from"]])
            try:
                if k == "set":
                    setattr(c.obj, op["attr"], op["value"])
                    c.spec[op["attr"]] = op["value"]
                else:
                    c.obj.set_polarization(Vector3D(*op["v"]))
                    c.spec["polarization"] = list(op["v"])
            except Exception as e:
                out = "raised:" + type(e).__name__
                # no atomicity assumed: re-read the reported parameters
                for a, v in self._getters(c, c.obj, c.kind).items():
                    c.spec[a] = v
                if op.get("invalid"):
                    env.fault_fired("reject")
            else:
                if op.get("invalid"):
                    env.probe("invalid_value_accepted")
            if op.get("invalid"):
                env.fault_armed("reject")
            # every reached state must be consistent: cheap part after each mutator
            self._spec_reads(c, c.obj, c.kind, c.spec)
            if c.is_profile:
                # the very next query after a change, at exactly the point sampled last (memoised values must not survive)
                pt = c.last_point
                try:
                    fresh = construct(c.kind, c.spec)
                except Exception:
                    fresh = None
                if fresh is not None:
                    a, b = c.obj.get_energy_density(*pt), fresh.get_energy_density(*pt)
                    if not close(a, b, RTOL):
                        raise Violation("stale-vs-fresh", "%s.density" % c.kind, "right after %s = %r the density at the point sampled last, %r, "
                                        "is %r; a fresh object gives %r" % (op.get("attr", "polarization"), op.get("value"), pt, a, b))
            env.event(k, out.split(":")[0], op.get("attr", ""))
        elif k == "read":
            self._spec_reads(c, c.obj, c.kind, c.spec)
            self._twin_compare(c, c.obj, c.kind, c.spec, env)
            self._laser_check(c, env)
            if c.set_after_read:
                env.nontrivial = True
            c.read_since_set = True
            env.event(k, "ok")
        elif k == "check":
            self._spec_reads(c, c.obj, c.kind, c.spec)
            self._invariants(c, c.obj, c.kind, c.spec, env)
            if c.set_after_read:
                env.nontrivial = True
            c.read_since_set = True
            env.event(k, "ok")
        elif k == "laser.swap":
            if c.laser is None:
                return "noop"
            alt = c.alt
            new = construct(alt["kind"], alt["spec"])
            old = (c.kind, c.obj, dict(c.spec))
            c.laser.laser_profile = new
            c.kind, c.obj, c.spec = alt["kind"], new, dict(alt["spec"])
            c.alt = {"kind": old[0], "spec": dict(old[2])}
            if op.get("keep"):
                c.old.append(old)
            del old
            self._laser_check(c, env)
            env.event(k, "ok", "keep" if op.get("keep") else "drop")
        elif k == "clone.set":
            # a shallow copy of the spectrum goes its own way: the original must not follow (and vice versa)
            import copy as _copy
            if c.is_profile:
                return "noop"
            a = op["attr"]
            if a not in c.spec:
                return "noop"
            v = op["value"]
            clone = _copy.copy(c.obj)
            cspec = dict(c.spec)
            try:
                setattr(clone, a, v)
                cspec[a] = v
            except Exception:
                for aa, vv in self._getters(c, clone, c.kind).items():
                    cspec[aa] = vv
            self._twin_compare(c, c.obj, c.kind, c.spec, env, who="original after its shallow copy was changed")
            self._twin_compare(c, clone, c.kind, cspec, env, who="shallow copy")
            c.clones = (getattr(c, "clones", []) + [(clone, cspec)])[-2:]
            env.probe("shallow_copy_mutated")
            env.event(k, "ok", a)
        elif k == "laser.reassign":
            if c.laser is None:
                return "noop"
            c.laser.laser_profile = c.laser.laser_profile      # assigning the attached profile again must change nothing
            self._laser_check(c, env)
            env.probe("same_profile_reassigned")
            env.event(k, "ok")
        elif k == "laser.recreate":
            if c.laser is None:
                return "noop"
            old = c.laser
            old.parent = None
            c.laser = None
            if op.get("keep"):
                c.old_lasers.append(old)
            del old
            if op.get("gc_first"):
                gc.collect()                                   # the old node (a reference cycle) dies before its successor is born
            c.laser = Laser(parent=c.world, transform=translate(0.1, 0.2, 0.3), name="laser")
            self._attach_rider(c)
            c.laser.laser_profile = c.obj                      # the same profile object now serves the new node
            self._laser_check(c, env)
            env.probe("laser_node_recreated")
            env.event(k, "ok", "keep" if op.get("keep") else "drop")
        elif k == "laser.second":
            if c.laser is None or len(c.others) >= 2:
                return "noop"
            # a second laser, with its own profile object of identical dimensions, lives next to the first one
            spec2 = dict(c.spec)
            l2 = Laser(parent=c.world, transform=translate(-0.4, 0.1, 0.0), name="laser2")
            l2.laser_profile = construct(c.kind, spec2)
            c.others.append((l2, c.kind, spec2))
            self._laser_check(c, env)
            env.probe("second_laser_same_dimensions")
            env.event(k, "ok")
        elif k == "old.set":
            if not c.old:
                return "noop"
            kind, obj, spec = c.old[-1]
            try:
                setattr(obj, op["attr"], op["value"])
                spec[op["attr"]] = op["value"]
            except Exception as e:
                out = "raised:" + type(e).__name__
            # a detached profile must no longer drive the laser's geometry
            self._laser_check(c, env)
            self._twin_compare(c, obj, kind, spec, env, who="detached profile")
            env.probe("detached_profile_mutated")
            env.event(k, out.split(":")[0], op["attr"])
        elif k == "gc":
            n = gc.collect()
            env.event(k, "ok")
            self._laser_check(c, env)
        elif k == "laser.geometry":
            self._laser_check(c, env)
            env.event(k, "ok")
        else:
            return "noop"
        env.state("%s|r%d|s%d|L%d|old%d" % (c.kind, c.read_since_set, c.set_after_read, c.laser is not None,
                                           min(len(c.old), 2)), k + ":" + op.get("attr", ""))
        return out

    def finish(self, c, env):
        self._spec_reads(c, c.obj, c.kind, c.spec)
        self._twin_compare(c, c.obj, c.kind, c.spec, env)
        self._invariants(c, c.obj, c.kind, c.spec, env)
        self._laser_check(c, env)
        if c.set_after_read:
            env.nontrivial = True

    # ------------------------------------------------------------------ shrinking
    def simplify_op(self, op):
        if op["op"] == "check":
            return [{"op": "read"}]
        return []

    def simplify_config(self, cfg):
        out = []
        if cfg.get("laser"):
            c = dict(cfg)
            c["laser"] = False
            out.append(c)
        return out
