"""C06 — rate repository: last write wins per key, other keys untouched, no stray files.

Real: cherab.openadas.repository.* (all families), cherab.openadas.install, cherab.openadas.parse.* (front-end of install_*).
Stub: SimFS (in-memory open/os under the unmodified modules), simulated OPEN-ADAS downloader, generated ADF files.

History = add_* / update_* (multi-key) / install_adf* / refused calls / reads, on one or two repository roots.
Oracle = dict key -> bytes, audited in full after every operation + footprint (no stray files) invariant.
Storage faults (ENOSPC at open, EIO at the n-th write / at close, failed or short downloads) only in the
separate `faults` configuration, with the narrow relaxation described in DESIGN.md.
"""

import copy
import os
import struct

import numpy as np
from cherab.core.atomic import hydrogen, deuterium, helium, carbon, neon, protium, helium3, carbon13
import cherab.openadas.repository as R
import cherab.openadas.repository.atomic as m_atomic
import cherab.openadas.repository.pec as m_pec
import cherab.openadas.repository.radiated_power as m_rad
import cherab.openadas.repository.wavelength as m_wl
import cherab.openadas.repository.beam.cx as m_bcx
import cherab.openadas.repository.beam.stopping as m_bst
import cherab.openadas.repository.beam.population as m_bpo
import cherab.openadas.repository.beam.emission as m_bem
import cherab.openadas.repository.utility as m_util
import cherab.openadas.install as m_install
import cherab.openadas.parse.adf11 as p11
import cherab.openadas.parse.adf12 as p12
import cherab.openadas.parse.adf15 as p15
import cherab.openadas.parse.adf21 as p21
import cherab.openadas.parse.adf22 as p22

from ..core import Violation, HarnessError
from ..machine import Machine
from ..seams.simfs import SimFS, install as fs_install
from ..seams import adfwriters as W

# "H1" is the isotope protium: a different object from hydrogen with the *same symbol* 'H' (same repository key, same file)
SPECIES = {"H": hydrogen, "D": deuterium, "He": helium, "C": carbon, "Ne": neon, "H1": protium, "He3": helium3, "C13": carbon13}
ZNUM = {"H": 1, "D": 1, "He": 2, "C": 6, "Ne": 10, "H1": 1, "He3": 2, "C13": 6}
SYMBOL = {"H": "H", "D": "D", "He": "He", "C": "C", "Ne": "Ne", "H1": "H", "He3": "He3", "C13": "C13"}   # symbols differing in digits only are different species
ROOTS = ["/sim/root1", "/sim/root1x/", "/sim/other/deep/repo"]
TRANSITIONS = [[3, 2], [4, 2], [5, 3], ["2s1 2P0.5", "1S0"], ["2S1 2p0.5", "1s0"], ["3d 2D2.5", "2p 2P1.5"], [2, 1],
               ["2s1  2P0.5", "1S0"], [" 2s1 2p0.5", "1s0 "], ["3", "2"]]     # white-space variants are *different* keys; "3" aliases 3

ADF11 = {"ionisation": ("add_ionisation_rate", "update_ionisation_rates", "get_ionisation_rate", "ionisation/{sp}.json"),
         "recombination": ("add_recombination_rate", "update_recombination_rates", "get_recombination_rate", "recombination/{sp}.json"),
         "line_power": ("add_line_power_rate", "update_line_power_rates", "get_line_radiated_power_rate", "radiated_power/line/{sp}.json"),
         "continuum_power": ("add_continuum_power_rate", "update_continuum_power_rates", "get_continuum_radiated_power_rate",
                             "radiated_power/continuum/{sp}.json"),
         "cx_power": ("add_cx_power_rate", "update_cx_power_rates", "get_cx_radiated_power_rate", "radiated_power/cx/{sp}.json")}
FAMILIES = list(ADF11) + ["thermal_cx", "pec_excitation", "pec_recombination", "pec_thermal_cx", "wavelength",
                          "beam_cx", "beam_stopping", "beam_population", "beam_emission"]
KEYPARTS = {"thermal_cx": ["d", "dc", "sp", "ch"], "pec_excitation": ["sp", "ch", "tr"], "pec_recombination": ["sp", "ch", "tr"],
            "pec_thermal_cx": ["d", "dc", "sp", "ch", "tr"], "wavelength": ["sp", "ch", "tr"], "beam_cx": ["d", "sp", "ch", "tr", "m"],
            "beam_stopping": ["b", "sp", "ch"], "beam_population": ["b", "m", "sp", "ch"], "beam_emission": ["b", "sp", "ch", "tr"]}
for _f in ADF11:
    KEYPARTS[_f] = ["sp", "ch"]


def enc_tr(tr):
    return "%s -> %s" % (str(tr[0]).lower(), str(tr[1]).lower())


def ckey(fam, root, key):
    """Canonical model key (the property's notion of key identity)."""
    parts = []
    for p in KEYPARTS[fam]:
        v = key[p]
        if p == "tr":
            v = enc_tr(v)
        elif p in ("sp", "d", "b"):
            v = SYMBOL[v]                 # keys are (family, species *symbol*, ...)
        parts.append(v)
    return (fam, root) + tuple(parts)


def file_of(fam, key):
    k = {p: (SYMBOL[v].lower() if p in ("sp", "d", "b") else v) for p, v in key.items()}
    if fam in ADF11:
        return ADF11[fam][3].format(**k)
    return {"thermal_cx": "thermal_cx/{d}/{dc}/{sp}.json", "pec_excitation": "pec/excitation/{sp}/{ch}.json",
            "pec_recombination": "pec/recombination/{sp}/{ch}.json", "pec_thermal_cx": "pec/thermal_cx/{d}/{dc}/{sp}/{ch}.json",
            "wavelength": "wavelength/{sp}/{ch}.json", "beam_cx": "beam/cx/{d}/{sp}/{ch}.json",
            "beam_stopping": "beam/stopping/{b}/{sp}/{ch}.json", "beam_population": "beam/population/{b}/{m}/{sp}/{ch}.json",
            "beam_emission": "beam/emission/{b}/{sp}/{ch}.json"}[fam].format(**k)


# ------------------------------------------------------------------------------------------ generation
class Gen:
    def __init__(self, rng):
        self.rng = rng
        self.uid = 0

    def vals(self, n, scale):
        """n unique finite float64 values (run-unique counter folded into the mantissa)."""
        out = []
        for _ in range(n):
            self.uid += 1
            u = self.rng.random()
            if u < 0.03:
                v = 5e-324 * self.uid                       # subnormal
            elif u < 0.06:
                v = 1.7e308 / (1.0 + self.uid * 1e-6)       # huge
            elif u < 0.08:
                v = -0.0 if self.uid % 2 else -scale * (1.0 + self.uid * 1e-9)
            else:
                v = scale * (1.0 + self.uid * 1e-9)
            out.append(v)
        return out

    def axis(self, scale):
        n = self.rng.choice([1, 1, 2, 3, 4])
        return self.vals(n, scale), n

    def table(self, shape, scale):
        if len(shape) == 1:
            return self.vals(shape[0], scale)
        return [self.table(shape[1:], scale) for _ in range(shape[0])]

    def key(self, fam, species):
        r = self.rng
        sp = r.choice(species)
        k = {"sp": sp, "ch": r.randint(0, ZNUM[sp])}
        parts = KEYPARTS[fam]
        if "d" in parts:
            k["d"] = r.choice(species)
            k["dc"] = r.randint(0, ZNUM[k["d"]] - 1)
        if "b" in parts:
            k["b"] = r.choice([s for s in species if ZNUM[s] <= 2] or species)
        if "tr" in parts:
            k["tr"] = r.choice(TRANSITIONS)
        if "m" in parts:
            k["m"] = r.choice([0, 1, 1, 2, 3]) if fam == "beam_cx" else r.choice([1, 2, 3])
        return {p: k[p] for p in parts}

    def payload(self, fam):
        if fam in ADF11 or fam == "thermal_cx":
            ne, n = self.axis(1e19)
            te, m = self.axis(100.0)
            return {"ne": ne, "te": te, "rates": self.table((n, m), 1e-14)}
        if fam in ("pec_excitation", "pec_recombination"):
            ne, n = self.axis(1e19)
            te, m = self.axis(100.0)
            return {"ne": ne, "te": te, "rate": self.table((n, m), 1e-15)}
        if fam == "pec_thermal_cx":
            ne, n = self.axis(1e19)
            te, m = self.axis(100.0)
            td, k = self.axis(10.0)
            return {"ne": ne, "te": te, "td": td, "rate": self.table((n, m, k), 1e-15)}
        if fam == "wavelength":
            return {"wavelength": self.vals(1, 500.0)[0]}
        if fam == "beam_cx":
            d = {"qref": self.vals(1, 1e-14)[0]}
            for x, q, s in (("eb", "qeb", 1e4), ("ti", "qti", 1e3), ("ni", "qni", 1e19), ("z", "qz", 2.0), ("b", "qb", 3.0)):
                ax, n = self.axis(s)
                d[x] = ax
                d[q] = self.vals(n, 1e-14)
            return d
        e, ne_ = self.axis(1e4)
        n, nn = self.axis(1e19)
        t, nt = self.axis(1e3)
        d = {"e": e, "n": n, "t": t, "sen": self.table((ne_, nn), 1e-13), "st": self.vals(nt, 1e-13)}
        for ref, s in (("eref", 6e4), ("nref", 6e19), ("tref", 2e3), ("sref", 1e-13)):
            d[ref] = self.vals(1, s)[0]
        return d


def expected(fam, payload):
    """field -> bytes, as the matching get_* must return after this payload was written."""
    out = {}
    for k, v in payload.items():
        if k.startswith("_"):
            continue
        name = "rate" if (k == "rates") else k
        if isinstance(v, float):
            out[name] = ("f", struct.pack("<d", v))
        else:
            a = np.array(v, np.float64)
            out[name] = (a.shape, a.tobytes())
    return out


def observed(fam, got):
    """Normalise what a get_* returned into the same field -> bytes form."""
    if fam == "wavelength":
        return {"wavelength": ("f", struct.pack("<d", float(got)))}
    out = {}
    for k, v in got.items():
        if isinstance(v, (float, int)) and not isinstance(v, bool):
            out[k] = ("f", struct.pack("<d", float(v)))
        else:
            a = np.asarray(v)
            if a.dtype != np.float64:
                out[k] = ("dtype", str(a.dtype))
            else:
                out[k] = (a.shape, np.ascontiguousarray(a).tobytes())
    return out


class Ctx:
    pass


class RepositoryMachine(Machine):
    pid = "C06"
    title = "Rate repository: last write wins per key, other keys untouched, no stray files"
    quick_runs = 8000
    thorough_runs = 400000
    components_real = ["cherab.openadas.repository.* (14 add/update/get families)", "cherab.openadas.install (all install_adf*)",
                       "cherab.openadas.parse.adf11/12/15/21/22", "cherab.core.utility.RecursiveDict", "json"]
    components_stub = ["file system: SimFS (open/os rebound in the repository, parser and installer modules)",
                       "downloader: urllib.request.urlretrieve served from an in-memory archive",
                       "ADF files: generated by vsim/seams/adfwriters.py"]
    assumptions = [
        "one writer at a time: no interleaving of two read-modify-write cycles (the property quantifies over histories)",
        "written values are finite float64 (subnormals, 1.7e308-scale, -0.0 included); every written array is unique",
        "fault configuration: keys stored in a file torn by an injected storage fault are unconstrained for the rest of the run; "
        "all other keys, the footprint invariant and root isolation stay fully checked",
        "install_*: the set of keys an ADF file covers is known from its generator; their values are adopted by re-reading",
    ]
    rule = ("cases = seeded (roots, species subset, fault switch, op list); abstraction = sequence of (op kind, family, outcome, "
            "number of stored keys bucket); non-trivial iff some write lands in a file that already holds another key, or rewrites "
            "a key (last-write-wins and isolation become observable)")

    # ------------------------------------------------------------------ generation
    def generate(self, rng, tier):
        g = Gen(rng)
        species = rng.sample(list(SPECIES), rng.randint(2, 6))
        nroots = rng.choice([1, 1, 2])
        roots = rng.sample(range(len(ROOTS)), nroots)
        faults = rng.random() < (0.10 if tier == "quick" else 0.25)
        fams = rng.sample(FAMILIES, rng.randint(2, len(FAMILIES)))
        cfg = {"species": species, "roots": roots, "faults": faults, "adas_path": "/sim/adas"}
        ops = []
        written = []       # (fam, root, key) generated so far: re-use keys to create rewrites and collisions
        for _ in range(rng.randint(3, 40)):
            u = rng.random()
            root = rng.choice(roots)
            fam = rng.choice(fams)
            if u < 0.32:
                key = self._pick_key(rng, g, fam, species, written)
                ops.append({"op": "add", "fam": fam, "root": root, "key": key, "payload": g.payload(fam),
                            "as": rng.choice(["list", "list", "tuple", "ndarray", "npcharge"]), "pathlib": rng.random() < 0.15})
                written.append((fam, key))
            elif u < 0.52:
                entries = []
                for _ in range(rng.randint(1, 4)):
                    key = self._pick_key(rng, g, fam, species, written, entries)
                    entries.append({"key": key, "payload": g.payload(fam)})
                    written.append((fam, key))
                op = {"op": "update", "fam": fam, "root": root, "entries": entries,
                      "as": rng.choice(["list", "list", "tuple", "ndarray", "npcharge"]), "pathlib": rng.random() < 0.15}
                if fam == "beam_cx" and rng.random() < 0.3:
                    op["empty_transition"] = rng.choice(TRANSITIONS)
                if rng.random() < 0.15:
                    op["resend"] = 1
                    op["resend_pos"] = rng.choice(["first", "last"])
                    op["resend_ulp"] = True          # ... one stored payload again, one number moved to the neighbouring float64
                elif rng.random() < 0.35:
                    # also re-send, unchanged, up to two payloads already stored in this family (an idempotent re-write
                    # mixed with new data: "last write wins" must not depend on whether the written value is new)
                    op["resend"] = rng.randint(1, 2)
                    op["resend_pos"] = rng.choice(["first", "last", "last"])
                ops.append(op)
            elif u < 0.62:
                key = self._pick_key(rng, g, fam, species, written)
                ops.append({"op": "read", "fam": fam, "root": root, "key": key})
            elif u < 0.74:
                hows = ["axis2d", "shape", "charge", "species", "pecclass", "metastable", "refscalar", "refscalar", "nonnumeric", "missingfield", "extrafield"]
                # only refusal kinds that exist for the family (a wavelength is one scalar; PEC classes exist for two families; ...)
                if fam == "wavelength":
                    hows = ["refscalar", "refscalar", "charge", "species"]
                else:
                    if fam not in ("pec_excitation", "pec_recombination"):
                        hows.remove("pecclass")
                    if fam not in ("beam_cx", "beam_population"):
                        hows.remove("metastable")
                    if fam not in ("beam_cx", "beam_stopping", "beam_population", "beam_emission"):
                        hows = [h for h in hows if h != "refscalar"]
                how = rng.choice(hows)
                entries = []
                for _ in range(rng.randint(1, 3)):
                    key = self._pick_key(rng, g, fam, species, written, entries)
                    entries.append({"key": key, "payload": g.payload(fam)})
                ops.append({"op": "reject", "fam": fam, "root": root, "how": how, "entries": entries,
                            "bad": rng.randrange(len(entries)), "via": rng.choice(["add", "update"])})
            elif u < 0.90:
                ops.append(self._gen_install(rng, g, species, root))
            elif faults:
                if rng.random() < 0.7:
                    ops.append({"op": "fault", "kind": rng.choice(["enospc-open", "eio-write", "eio-write", "eio-close"]),
                                "n": rng.choice([0, 1, 3, 7, 20, 60])})
                else:
                    ops.append({"op": "dlfault", "kind": rng.choice(["fail", "short"])})
            else:
                key = self._pick_key(rng, g, fam, species, written)
                ops.append({"op": "read", "fam": fam, "root": root, "key": key})
        return {"config": cfg, "ops": ops}

    def _pick_key(self, rng, g, fam, species, written, entries=None):
        if entries and rng.random() < 0.5:
            # another key of the file the first entry of this call goes to (one read-modify-write cycle covers both)
            k = dict(entries[0]["key"])
            if "tr" in k:
                k["tr"] = rng.choice(TRANSITIONS)
            elif fam in ADF11 or fam == "thermal_cx":
                k["ch"] = rng.randint(0, ZNUM[k["sp"]])
            elif "m" in k:
                k["m"] = rng.choice([1, 2, 3])
            return k
        same = [k for f, k in written if f == fam]
        u = rng.random()
        if same and u < 0.35:
            k = dict(rng.choice(same))
            if "tr" in k and rng.random() < 0.3:
                t = k["tr"]
                k["tr"] = [str(t[0]).upper() if isinstance(t[0], str) else t[0], str(t[1]).upper() if isinstance(t[1], str) else t[1]]
            return k
        if same and u < 0.6:
            # same file, different key
            k = dict(rng.choice(same))
            if "tr" in k:
                k["tr"] = rng.choice(TRANSITIONS)
            elif fam in ADF11:
                k["ch"] = rng.randint(0, ZNUM[k["sp"]])
            return k
        return g.key(fam, species)

    def _gen_install(self, rng, g, species, root):
        kind = rng.choice(["adf11scd", "adf11acd", "adf11ccd", "adf11plt", "adf11prb", "adf11prc", "adf12", "adf15",
                           "adf21", "adf22bmp", "adf22bme"])
        op = {"op": "install", "kind": kind, "root": root, "download": rng.random() < 0.4, "stale_cache": rng.random() < 0.25,
              "leading_slash": rng.random() < 0.25,
              "file": "adf/%s/f%d.dat" % (kind, rng.randrange(3)), "tag": rng.randrange(1000)}
        sp = rng.choice([s for s in species if s not in ("D", "H1")] or ["C"])
        op["sp"] = sp
        z = ZNUM[sp]
        if kind.startswith("adf11"):
            op["nne"] = rng.randint(2, 4)
            op["nte"] = rng.randint(2, 4)
            if kind == "adf11ccd":
                op["d"] = rng.choice(species)
                op["dc"] = rng.randint(0, ZNUM[op["d"]] - 1)
        elif kind == "adf12":
            op["d"] = rng.choice(species)
            op["m"] = rng.choice([1, 2])
            op["ch"] = rng.randint(1, z)
            op["trs"] = rng.sample([[8, 7], [9, 8], [10, 8], [7, 6]], rng.randint(1, 3))
        elif kind == "adf15":
            op["sp"] = "H" if "H" in species else sp
            op["ch"] = 0
            op["blocks"] = [{"tr": rng.choice([[3, 2], [4, 2], [5, 3], [2, 1]]), "type": rng.choice(["EXCIT", "RECOM", "CHEXC"])}
                            for _ in range(rng.randint(1, 4))]
        else:
            op["b"] = rng.choice([s for s in species if ZNUM[s] <= 2] or species)
            op["ch"] = rng.randint(0, z)
            if kind == "adf22bmp":
                op["m"] = rng.choice([1, 2, 3])
            if kind == "adf22bme":
                op["tr"] = rng.choice([[3, 2], [4, 2], [2, 1]])
        import json, zlib
        ident = {k: v for k, v in op.items() if k not in ("root", "download", "file", "op")}
        op["file"] = "adf/%s/%08x.dat" % (kind, zlib.crc32(json.dumps(ident, sort_keys=True).encode()))
        if op.pop("leading_slash", False) and op["download"] and not op["stale_cache"]:
            op["file"] = "/" + op["file"]        # OPEN-ADAS style path "/adf11/..." (the URL builder strips the slash)
        return op

    # ------------------------------------------------------------------ world
    def start(self, cfg, env):
        c = Ctx()
        c.cfg = cfg
        c.fs = SimFS()
        mods = [m_atomic, m_pec, m_rad, m_wl, m_bcx, m_bst, m_bpo, m_bem, m_install, p11, p12, p15, p21, p22]
        fs_install(c.fs, mods)
        c.default_root = c.fs.norm(m_util.DEFAULT_REPOSITORY_PATH)
        c.home = c.fs.norm(os.path.expanduser("~"))
        c.model = {}           # canonical key -> {"fam","root","key","value": field->bytes}
        c.poisoned = set()     # absolute file paths torn by a fault
        c.empty_named = []     # (root, key) of beam-CX transitions that were named without metastables: must stay unreadable
        c.nwrites = 0
        c.fault_mode = bool(cfg.get("faults"))
        env.stats.add("config", "faults" if c.fault_mode else "nofaults")
        return c

    def _root(self, r):
        return ROOTS[r]

    def _abs(self, c, root, rel):
        return c.fs.norm(os.path.join(self._root(root), rel))

    # ---- API calls ---------------------------------------------------------------------------------------
    def _sp(self, s):
        return SPECIES[s]

    def _variant(self, payload, how):
        """The same numbers in another container type (tuples / float64 ndarrays); the expectation is unchanged."""
        p = copy.deepcopy(payload)
        if how in ("tuple", "ndarray"):
            def conv(v):
                if isinstance(v, list):
                    if how == "ndarray":
                        return np.array(v, dtype=np.float64)
                    return tuple(conv(x) for x in v)
                return v
            p = {k: conv(v) for k, v in p.items()}
        return p

    def _call_add(self, fam, key, payload, root, how="list", pathlib_root=False):
        p = self._variant(payload, how)
        rp = self._root(root)
        if pathlib_root:
            import pathlib
            rp = pathlib.PurePosixPath(rp)
        k = dict(key)
        if how == "npcharge":
            k["ch"] = np.int64(k["ch"])          # a charge that is an integer but not a Python int
            if "m" in k:
                k["m"] = np.int64(k["m"])        # ... and so is the metastable (np.arange, np.argmax results)
        S = self._sp
        tr = tuple(k["tr"]) if "tr" in k else None
        if fam in ADF11:
            return getattr(R, ADF11[fam][0])(S(k["sp"]), k["ch"], p, rp)
        if fam == "thermal_cx":
            return R.add_thermal_cx_rate(S(k["d"]), k["dc"], S(k["sp"]), k["ch"], p, rp)
        if fam == "pec_excitation":
            return R.add_pec_excitation_rate(S(k["sp"]), k["ch"], tr, p, rp)
        if fam == "pec_recombination":
            return R.add_pec_recombination_rate(S(k["sp"]), k["ch"], tr, p, rp)
        if fam == "pec_thermal_cx":
            return R.add_pec_thermal_cx_rate(S(k["d"]), k["dc"], S(k["sp"]), k["ch"], tr, p, rp)
        if fam == "wavelength":
            return R.add_wavelength(S(k["sp"]), k["ch"], tr, p["wavelength"], rp)
        if fam == "beam_cx":
            return R.add_beam_cx_rate(S(k["d"]), k["m"], S(k["sp"]), k["ch"], tr, p, rp)
        if fam == "beam_stopping":
            return R.add_beam_stopping_rate(S(k["b"]), S(k["sp"]), k["ch"], p, rp)
        if fam == "beam_population":
            return R.add_beam_population_rate(S(k["b"]), k["m"], S(k["sp"]), k["ch"], p, rp)
        if fam == "beam_emission":
            return R.add_beam_emission_rate(S(k["b"]), S(k["sp"]), k["ch"], tr, p, rp)
        raise HarnessError(fam)

    def _nest(self, d, path, value):
        for p in path[:-1]:
            d = d.setdefault(p, {})
        d[path[-1]] = value

    def _application_order(self, fam, entries):
        """Entries in the order a nested update dict applies them (dict semantics: a repeated raw key keeps its
        first position but takes the last value; iteration is hierarchical)."""
        d = {}
        for e in entries:
            k = e["key"]
            tr = tuple(k["tr"]) if "tr" in k else None
            path = [(tr if p == "tr" else k[p]) for p in self._nest_path(fam)]
            self._nest(d, path, ("leaf", e))
        out = []

        def walk(x):
            if isinstance(x, tuple) and x and x[0] == "leaf":
                out.append(x[1])
                return
            for v in x.values():
                walk(v)
        walk(d)
        return out

    def _nest_path(self, fam):
        return {"thermal_cx": ["d", "dc", "sp", "ch"], "pec_excitation": ["sp", "ch", "tr"], "pec_recombination": ["sp", "ch", "tr"],
                "pec_thermal_cx": ["d", "dc", "sp", "ch", "tr"], "wavelength": ["sp", "ch", "tr"], "beam_cx": ["d", "sp", "ch", "tr", "m"],
                "beam_stopping": ["b", "sp", "ch"], "beam_population": ["b", "m", "sp", "ch"],
                "beam_emission": ["b", "sp", "ch", "tr"]}.get(fam, ["sp", "ch"])

    def _empty_tr(self, c, op, fam, root, entries):
        """A transition named with an empty metastable dict (legal: nothing to write) -- only if nothing is stored under it."""
        tr = op.get("empty_transition")
        if fam != "beam_cx" or not tr or not entries:
            return None
        k0 = entries[0]["key"]
        enc = enc_tr(tr)
        for e in entries:
            if enc_tr(e["key"]["tr"]) == enc:
                return None
        for ck in c.model:
            if ck[0] == "beam_cx" and ck[1] == root and ck[2:5] == (SYMBOL[k0["d"]], SYMBOL[k0["sp"]], k0["ch"]) and ck[5] == enc:
                return None
        c.empty_named.append((root, dict(k0, tr=tr, m=1)))
        return (k0, tr)

    def _call_update(self, fam, entries, root, species_override=None, cls_override=None, how="list", pathlib_root=False,
                     empty_transition=None, npmeta=False):
        rp = self._root(root)
        if pathlib_root:
            import pathlib
            rp = pathlib.PurePosixPath(rp)
        S = (lambda s: species_override.get(s, SPECIES[s])) if species_override else self._sp
        d = {}
        for e in entries:
            k = e["key"]
            p = self._variant(e["payload"], how)
            tr = tuple(k["tr"]) if "tr" in k else None
            if fam in ADF11:
                self._nest(d, [S(k["sp"]), k["ch"]], p)
            elif fam == "thermal_cx":
                self._nest(d, [S(k["d"]), k["dc"], S(k["sp"]), k["ch"]], p)
            elif fam in ("pec_excitation", "pec_recombination"):
                cls = cls_override or fam.split("_", 1)[1]
                self._nest(d, [cls, S(k["sp"]), k["ch"], tr], p)
            elif fam == "pec_thermal_cx":
                self._nest(d, [S(k["d"]), k["dc"], S(k["sp"]), k["ch"], tr], p)
            elif fam == "wavelength":
                self._nest(d, [S(k["sp"]), k["ch"], tr], p["wavelength"])
            elif fam == "beam_cx":
                self._nest(d, [S(k["d"]), S(k["sp"]), k["ch"], tr, np.int64(k["m"]) if npmeta else k["m"]], p)
                if empty_transition is not None and k is empty_transition[0]:
                    d[S(k["d"])][S(k["sp"])][k["ch"]].setdefault(tuple(empty_transition[1]), {})
            elif fam == "beam_stopping":
                self._nest(d, [S(k["b"]), S(k["sp"]), k["ch"]], p)
            elif fam == "beam_population":
                self._nest(d, [S(k["b"]), k["m"], S(k["sp"]), k["ch"]], p)
            elif fam == "beam_emission":
                self._nest(d, [S(k["b"]), S(k["sp"]), k["ch"], tr], p)
        fn = {"thermal_cx": "update_thermal_cx_rates", "pec_excitation": "update_pec_rates", "pec_recombination": "update_pec_rates",
              "pec_thermal_cx": "update_pec_thermal_cx_rates", "wavelength": "update_wavelengths", "beam_cx": "update_beam_cx_rates",
              "beam_stopping": "update_beam_stopping_rates", "beam_population": "update_beam_population_rates",
              "beam_emission": "update_beam_emission_rates"}.get(fam) or ADF11[fam][1]
        return getattr(R, fn)(d, rp)

    def _call_get(self, fam, key, root):
        rp = self._root(root)
        k = key
        S = self._sp
        tr = tuple(k["tr"]) if "tr" in k else None
        if fam in ADF11:
            return getattr(R, ADF11[fam][2])(S(k["sp"]), k["ch"], rp)
        if fam == "thermal_cx":
            return R.get_thermal_cx_rate(S(k["d"]), k["dc"], S(k["sp"]), k["ch"], rp)
        if fam == "pec_excitation":
            return R.get_pec_excitation_rate(S(k["sp"]), k["ch"], tr, rp)
        if fam == "pec_recombination":
            return R.get_pec_recombination_rate(S(k["sp"]), k["ch"], tr, rp)
        if fam == "pec_thermal_cx":
            return R.get_pec_thermal_cx_rate(S(k["d"]), k["dc"], S(k["sp"]), k["ch"], tr, rp)
        if fam == "wavelength":
            return R.get_wavelength(S(k["sp"]), k["ch"], tr, rp)
        if fam == "beam_cx":
            return R.get_beam_cx_rates(S(k["d"]), S(k["sp"]), k["ch"], tr, rp)
        if fam == "beam_stopping":
            return R.get_beam_stopping_rate(S(k["b"]), S(k["sp"]), k["ch"], rp)
        if fam == "beam_population":
            return R.get_beam_population_rate(S(k["b"]), k["m"], S(k["sp"]), k["ch"], rp)
        if fam == "beam_emission":
            return R.get_beam_emission_rate(S(k["b"]), S(k["sp"]), k["ch"], tr, rp)
        raise HarnessError(fam)

    def _read(self, c, fam, key, root):
        """("ok", field->bytes) | ("missing", None) | ("error", exc).  beam_cx is metastable-resolved."""
        try:
            got = self._call_get(fam, key, root)
        except RuntimeError:
            return "missing", None
        except Exception as e:
            return "error", e
        if fam == "beam_cx":
            if not got:
                return "error", ValueError("get_beam_cx_rates returned an empty list instead of raising RuntimeError")
            by = {}
            for m, rate in got:
                if m in by:
                    return "error", ValueError("metastable %r returned twice" % m)
                by[m] = rate
            if key["m"] not in by:
                return "missing", None
            return "ok", observed(fam, by[key["m"]])
        return "ok", observed(fam, got)

    # ---- the audit ---------------------------------------------------------------------------------------
    def _audit(self, c, env, after, alternatives=None, unconstrained=None):
        """Full audit.  alternatives: ckey -> list of allowed values (None = absent) for keys named by a refused/failed
        call; the value actually read is adopted.  unconstrained: set of ckeys to adopt without judgement."""
        alternatives = alternatives or {}
        unconstrained = unconstrained or set()
        for ck in list(set(c.model) | set(alternatives) | set(unconstrained)):
            info = c.model.get(ck) or c.pending_info.get(ck)
            fam, root, key = info["fam"], info["root"], info["key"]
            path = self._abs(c, root, file_of(fam, key))
            if path in c.poisoned:
                c.model.pop(ck, None)
                continue
            how, val = self._read(c, fam, key, root)
            if ck in unconstrained:
                if how == "ok":
                    c.model[ck] = {"fam": fam, "root": root, "key": key, "value": val, "payload": None}
                else:
                    c.model.pop(ck, None)
                continue
            if ck in alternatives:
                allowed = alternatives[ck]
                if how == "missing":
                    if None not in allowed:
                        raise Violation("key-lost", fam, "after %s: key %r (stored before) is no longer readable" % (after, ck))
                    c.model.pop(ck, None)
                elif how == "ok":
                    if not any(a is not None and a == val for a in allowed):
                        raise Violation("key-corrupted", fam, "after %s: key %r holds neither its previous nor the offered value" % (after, ck))
                    keep = c.model.get(ck)
                    c.model[ck] = {"fam": fam, "root": root, "key": key, "value": val,
                                   "payload": keep["payload"] if keep and keep["value"] == val else None}
                else:
                    raise Violation("key-lost", fam, "after %s: reading key %r raised %s: %s" % (after, ck, type(val).__name__, val))
                continue
            want = c.model[ck]["value"]
            if how == "missing":
                raise Violation("key-lost", fam, "after %s: key %r is no longer readable (RuntimeError)" % (after, ck))
            if how == "error":
                raise Violation("key-lost", fam, "after %s: reading key %r raised %s: %s" % (after, ck, type(val).__name__, val))
            if val != want:
                bad = sorted(k for k in set(val) | set(want) if val.get(k) != want.get(k))
                raise Violation("stale-or-foreign-value", fam, "after %s: key %r differs from the most recent write in fields %r" % (after, ck, bad))
        for root, key in c.empty_named[-6:]:
            ck = ckey("beam_cx", root, key)
            if any(k2[:6] == ck[:6] for k2 in c.model) or self._abs(c, root, file_of("beam_cx", key)) in c.poisoned:
                continue
            how, val = self._read(c, "beam_cx", key, root)
            if how != "missing":
                raise Violation("never-written-readable", "beam_cx", "after %s: transition %r was only named with an empty metastable "
                                "dictionary, yet reading it gives %s %r" % (after, ck[:6], how, val))
        env.stats.inc("audit.keys", len(c.model))

    def _footprint(self, c, env, root, w0, d0, extra_ok=()):
        """Everything created since (w0, d0) must lie under the root passed to the call; nothing under HOME."""
        base = c.fs.norm(self._root(root))
        for p in c.fs.opened_w[w0:] + c.fs.made_dirs[d0:]:
            if not (p == base or p.startswith(base + "/") or base.startswith(p.rstrip("/") + "/")):
                where = "the default repository under HOME" if p.startswith(c.home) else "outside the repository"
                raise Violation("stray-file", "path", "call with repository_path=%r created %r (%s)" % (self._root(root), p, where))

    def _never_written(self, c, env, op):
        """A sample of keys never written must raise RuntimeError."""
        fam = op.get("fam")
        if fam is None:
            return
        root = op["root"]
        for sp in c.cfg["species"][:2]:
            key = {"sp": sp, "ch": ZNUM[sp], "d": sp, "dc": 0, "b": sp, "tr": [13, 11], "m": 7}
            key = {p: key[p] for p in KEYPARTS[fam]}
            ck = ckey(fam, root, key)
            if ck in c.model or self._abs(c, root, file_of(fam, key)) in c.poisoned:
                continue
            how, val = self._read(c, fam, key, root)
            if how != "missing":
                raise Violation("never-written-readable", fam, "key %r was never written but reading gave %s %r" % (ck, how, val if how == "error" else "…"))
            env.probe("never_written_raises")

    # ---- steps ---------------------------------------------------------------------------------------------
    def step(self, c, op, env):
        k = op["op"]
        c.pending_info = {}
        if k == "fault":
            if not c.fault_mode:
                return "noop"
            c.fs.arm(op["kind"], op.get("n", 0))
            env.fault_armed(op["kind"])
            env.event(k, "armed", op["kind"])
            return "armed"
        if k == "dlfault":
            if not c.fault_mode:
                return "noop"
            c.fs.download_plan = op["kind"]
            env.fault_armed("download-" + op["kind"])
            env.event(k, "armed", op["kind"])
            return "armed"
        if op.get("root") not in c.cfg["roots"]:
            return "noop"
        w0, d0, f0 = len(c.fs.opened_w), len(c.fs.made_dirs), len(c.fs.fired)
        if k in ("add", "update"):
            out = self._do_write(c, op, env, w0, d0, f0)
        elif k == "read":
            out = self._do_read(c, op, env)
        elif k == "reject":
            out = self._do_reject(c, op, env, w0, d0, f0)
        elif k == "install":
            out = self._do_install(c, op, env, w0, d0, f0)
        else:
            return "noop"
        for kind, path, n in c.fs.fired[f0:]:
            env.fault_fired(kind if not kind.startswith("download") else kind)
        self._never_written(c, env, op)
        env.event(k, out.split(":")[0], op.get("fam", op.get("kind", "")))
        nk = len(c.model)
        env.state("k%d|p%d|%s" % (0 if nk == 0 else (1 if nk < 4 else (2 if nk < 10 else 3)), min(len(c.poisoned), 2),
                                   "F" if c.fs.fault else "-"), "%s:%s" % (k, op.get("fam", op.get("kind", ""))))
        return out

    def _absorb_faults(self, c, f0):
        for kind, path, n in c.fs.fired[f0:]:
            if kind in ("eio-write", "eio-close"):
                c.poisoned.add(path)
        for p in c.fs.torn:
            c.poisoned.add(p)

    def _do_write(self, c, op, env, w0, d0, f0):
        fam, root = op["fam"], op["root"]
        entries = [{"key": op["key"], "payload": op["payload"]}] if op["op"] == "add" else list(op["entries"])
        if op.get("resend"):
            named = {ckey(fam, root, e["key"]) for e in entries}
            stored = [m for ck, m in sorted(c.model.items(), key=lambda kv: repr(kv[0]))
                      if m["fam"] == fam and m["root"] == root and m.get("payload") is not None and ck not in named]
            extra = [{"key": m["key"], "payload": copy.deepcopy(m["payload"])} for m in stored[: op["resend"]]]
            if extra and op.get("resend_ulp"):
                pl = extra[0]["payload"]
                fld = sorted(k for k, v in pl.items() if isinstance(v, (float, list)))[-1]
                v = pl[fld]
                if isinstance(v, float):
                    pl[fld] = float(np.nextafter(v, np.inf))
                else:
                    while isinstance(v[-1], list):
                        v = v[-1]
                    v[-1] = float(np.nextafter(v[-1], np.inf))
                env.probe("stored_payload_resent_one_ulp_away")
            elif extra:
                env.probe("stored_payload_resent_unchanged")
                entries = (extra + entries) if op.get("resend_pos") == "first" else (entries + extra)
        # last entry wins when an update names the same canonical key twice
        offered = {}
        payloads = {}
        every = {}         # canonical key -> every value offered for it by this call (aliases: case, white space, isotope symbol)
        for e in (self._application_order(fam, entries) if op["op"] == "update" else entries):
            ck = ckey(fam, root, e["key"])
            offered.pop(ck, None)
            offered[ck] = (e["key"], expected(fam, e["payload"]))
            every.setdefault(ck, []).append(offered[ck][1])
            payloads[ck] = e["payload"]
        files_before = {self._abs(c, root, file_of(fam, key)) for key, _ in offered.values()}
        touching_poisoned = bool(files_before & c.poisoned)
        # probes for reach
        for ck, (key, _) in offered.items():
            path = self._abs(c, root, file_of(fam, key))
            others = [m for m in c.model.values() if self._abs(c, m["root"], file_of(m["fam"], m["key"])) == path]
            if ck in c.model:
                env.probe("key_rewritten")
                env.nontrivial = True
            if any(ckey(m["fam"], m["root"], m["key"]) != ck for m in others):
                env.probe("write_into_file_holding_other_keys")
                env.nontrivial = True
            if len(others) >= 3:
                env.probe("update_touched_file_holding_3plus_keys")
        try:
            if op["op"] == "add":
                self._call_add(fam, op["key"], op["payload"], root, how=op.get("as", "list"), pathlib_root=bool(op.get("pathlib")))
            else:
                self._call_update(fam, entries, root, how=op.get("as", "list") if op.get("as") != "npcharge" else "list",
                                  pathlib_root=bool(op.get("pathlib")), empty_transition=self._empty_tr(c, op, fam, root, entries),
                                  npmeta=op.get("as") == "npcharge")
            raised = None
        except Exception as e:
            raised = e
        self._absorb_faults(c, f0)
        self._footprint(c, env, root, w0, d0)
        fault_fired = len(c.fs.fired) > f0
        for ck, (key, val) in offered.items():
            c.pending_info[ck] = {"fam": fam, "root": root, "key": key}
        if raised is None:
            for other in {m["fam"] for m in c.model.values()}:
                env.stats.add("family_written_while_family_stored", "%s>%s" % (fam, other))
            for ck, (key, val) in offered.items():
                c.model[ck] = {"fam": fam, "root": root, "key": key, "value": val, "payload": payloads[ck]}
            self._audit(c, env, "%s %s" % (op["op"], fam))
            env.stats.add("families_written", fam)
            c.nwrites += 1
            return "ok"
        if fault_fired or touching_poisoned:
            # an injected storage fault (or a file torn earlier) made the call fail: named keys old-or-new, everything else exact
            alt = {ck: [c.model[ck]["value"] if ck in c.model else None] + every[ck] for ck, (key, val) in offered.items()}
            self._audit(c, env, "failed %s %s" % (op["op"], fam), alternatives=alt)
            return "raised:fault"
        raise Violation("write-refused", "%s.%s" % (op["op"], fam), "valid %s of %d key(s) raised %s: %s" % (
            op["op"], len(offered), type(raised).__name__, raised))

    def _do_read(self, c, op, env):
        fam, root, key = op["fam"], op["root"], op["key"]
        ck = ckey(fam, root, key)
        if self._abs(c, root, file_of(fam, key)) in c.poisoned:
            return "noop"
        how, val = self._read(c, fam, key, root)
        if ck in c.model:
            if how != "ok" or val != c.model[ck]["value"]:
                raise Violation("stale-or-foreign-value", fam, "read of %r gave %s, not the most recent write" % (ck, how))
            if key.get("tr") and enc_tr(key["tr"]) != "%s -> %s" % (key["tr"][0], key["tr"][1]):
                env.probe("case_variant_transition_read")
            return "ok"
        if how != "missing":
            raise Violation("never-written-readable", fam, "key %r was never written but reading gave %s" % (ck, how))
        return "missing"

    def _do_reject(self, c, op, env, w0, d0, f0):
        fam, root, how = op["fam"], op["root"], op["how"]
        entries = copy.deepcopy(op["entries"])
        bad = entries[op["bad"] % len(entries)]
        species_override = None
        cls_override = None
        applicable = True
        if how == "axis2d":
            ax = {"wavelength": None, "beam_cx": "eb"}.get(fam, "ne" if "ne" in bad["payload"] else "e")
            if ax is None:
                applicable = False
            else:
                bad["payload"][ax] = [list(bad["payload"][ax])]
        elif how == "shape":
            tab = {"wavelength": None, "beam_cx": "qeb"}.get(fam, "rates" if "rates" in bad["payload"] else ("rate" if "rate" in bad["payload"] else "sen"))
            if tab is None:
                applicable = False
            else:
                t = bad["payload"][tab]
                bad["payload"][tab] = list(t) + [t[0]]
        elif how == "refscalar":
            # valid arrays, invalid scalar: detected by the library only when it converts the scalar
            fld = {"wavelength": "wavelength", "beam_cx": "qref", "beam_stopping": "sref", "beam_population": "sref",
                   "beam_emission": "sref"}.get(fam)
            if fld is None:
                applicable = False
            else:
                bad["payload"][fld] = "n/a"
        elif how == "nonnumeric":
            arrs = sorted(k for k, v in bad["payload"].items() if isinstance(v, list))
            if not arrs:
                applicable = False
            else:
                a = arrs[op["bad"] % len(arrs)]
                v = bad["payload"][a]
                if v and isinstance(v[-1], list):
                    v[-1][-1] = "n/a" if not isinstance(v[-1][-1], list) else v[-1][-1]
                    if isinstance(v[-1][-1], list):
                        v[-1][-1][-1] = "n/a"
                else:
                    v[-1] = "n/a"
        elif how == "extrafield":
            if fam == "wavelength":
                applicable = False
            else:
                bad["payload"]["_comment"] = {"not", "serialisable"}       # a set: json.dump cannot write it
        elif how == "missingfield":
            flds = sorted(bad["payload"])
            if fam == "wavelength" or not flds:
                applicable = False
            else:
                del bad["payload"][flds[-1 - (op["bad"] % len(flds))]]
        elif how == "charge":
            bad["key"]["ch"] = ZNUM[bad["key"]["sp"]] + 1
        elif how == "species":
            species_override = {bad["key"]["sp"]: bad["key"]["sp"].lower() + "-as-string"}
        elif how == "pecclass":
            if fam not in ("pec_excitation", "pec_recombination"):
                applicable = False
            cls_override = "ionisation"
        elif how == "metastable":
            if "m" not in bad["key"]:
                applicable = False
            else:
                bad["key"]["m"] = -1
        if not applicable:
            return "noop"
        if op.get("via") == "add" and how not in ("species", "pecclass"):
            entries = [bad]
        offered = {}
        for e in (self._application_order(fam, entries) if not (op.get("via") == "add" and how not in ("species", "pecclass")) else entries):
            try:
                ck = ckey(fam, root, e["key"])
                prev = offered.pop(ck, None)
                vals = list(prev[1]) if prev else []
                if e is not bad or how == "extrafield":
                    # (an extra field makes no entry invalid by itself: families that copy the validated fields store it, and a
                    #  call that fails for another reason - an injected storage fault - may have stored it before failing)
                    vals.append(expected(fam, e["payload"]))
                offered[ck] = (e["key"], vals)       # several entries may alias one key (case, white space, isotope symbol)
            except Exception:
                pass
        env.fault_armed("reject-" + how)
        try:
            if op.get("via") == "add" and how not in ("species", "pecclass"):
                self._call_add(fam, bad["key"], bad["payload"], root)
            else:
                self._call_update(fam, entries, root, species_override=species_override, cls_override=cls_override)
            raised = None
        except Exception as e:
            raised = e
        self._absorb_faults(c, f0)
        self._footprint(c, env, root, w0, d0)
        for ck, (key, val) in offered.items():
            c.pending_info[ck] = {"fam": fam, "root": root, "key": key}
        if raised is None:
            env.probe("invalid_data_accepted")
            self._audit(c, env, "accepted invalid %s" % fam, unconstrained=set(offered))
            return "accepted"
        env.fault_fired("reject-" + how)
        alt = {}
        for ck, (key, vals) in offered.items():
            old = c.model[ck]["value"] if ck in c.model else None
            alt[ck] = [old] + list(vals)
        # (a) every key not named is bit-identical, (b) named keys readable with old or offered value
        self._audit(c, env, "rejected %s (%s)" % (fam, how), alternatives=alt)
        env.probe("reject_then_audit")
        return "raised:" + type(raised).__name__

    # ---- installers ------------------------------------------------------------------------------------------
    def _adf_text(self, op):
        kind = op["kind"]
        tag = op["tag"]
        f = 1.0 + tag * 1e-3
        if kind.startswith("adf11"):
            sp = op["sp"]
            z = ZNUM[sp]
            nne, nte = op["nne"], op["nte"]
            if nne + nte <= 4:
                nte = 5 - nne
            log_ne = [10.0 + i for i in range(nne)]
            log_te = [0.0 + 0.5 * i for i in range(nte)]
            blocks = [(z1, [[-10.0 - z1 - 0.1 * t - 0.01 * n - tag * 1e-4 for n in range(nne)] for t in range(nte)]) for z1 in range(1, z + 1)]
            return W.adf11(z, SPECIES[sp].name, log_ne, log_te, blocks)
        if kind == "adf12":
            blocks = []
            for i, tr in enumerate(op["trs"]):
                g = 1.0 + 0.01 * tr[0] + 0.001 * tr[1]          # every block of a file carries its own numbers
                blocks.append(dict(upper=tr[0], lower=tr[1], qref=1e-8 * f * g, refs=[4e4, 1e3, 1e13, 2.0, 3.0], eb=[1e3, 1e4 * f, 1e5],
                                   qeb=[1e-9 * g, 2e-9 * f, 3e-9], ti=[100.0, 1000.0], qti=[1e-9 * f, 2e-9 * g], ni=[1e12, 1e13],
                                   qni=[1e-9 * g, 1.1e-9 * f], z=[1.0, 2.0], qz=[1e-9, 1.2e-9 * g], b=[1.0, 3.0], qb=[1e-9 * f, 1.3e-9 * g]))
            return W.adf12(blocks)
        if kind == "adf15":
            blocks = []
            for b in op["blocks"]:
                g = 1.0 + 0.01 * b["tr"][0] + 0.001 * b["tr"][1] + {"EXCIT": 0.0, "RECOM": 0.1, "CHEXC": 0.2}[b["type"]]
                blocks.append(dict(wl=6561.9 + 10 * b["tr"][0], upper=b["tr"][0], lower=b["tr"][1], type=b["type"], ne=[1e10, 1e12 * f],
                                   te=[1.0, 10.0, 100.0], rate=[[1e-9 * f * g, 2e-9, 3e-9 * g], [4e-9, 5e-9 * g, 6e-9 * f]]))
            return W.adf15_hydrogen(blocks)
        return W.adf2x(op["ch"], op["sp"], [1e3, 2e3 * f, 5e3], [1e12, 1e13], [[1e-7 * f, 2e-7], [3e-7, 4e-7], [5e-7, 6e-7 * f]],
                       [10.0, 100.0, 1000.0 * f, 2000.0], [1e-7, 2e-7, 3e-7 * f, 4e-7])

    def _install_plan(self, c, op):
        """(callable, covered keys [(fam, key)], allowed relative files)."""
        kind, root = op["kind"], op["root"]
        rp = self._root(root)
        kw = dict(download=bool(op["download"]), repository_path=rp, adas_path=c.cfg["adas_path"])
        S = self._sp
        sp = op["sp"]
        z = ZNUM[sp]
        fp = op["file"]
        if kind.startswith("adf11"):
            t = kind[5:]
            fam = {"scd": "ionisation", "acd": "recombination", "ccd": "thermal_cx", "plt": "line_power", "prb": "continuum_power",
                   "prc": "cx_power"}[t]
            corr = -1 if t in ("scd", "plt") else 0
            charges = [z1 + corr for z1 in range(1, z + 1)]
            if t == "ccd":
                keys = [(fam, {"d": op["d"], "dc": op["dc"], "sp": sp, "ch": ch}) for ch in charges]
                fn = lambda: m_install.install_adf11ccd(S(op["d"]), op["dc"], S(sp), fp, **kw)
            else:
                keys = [(fam, {"sp": sp, "ch": ch}) for ch in charges]
                fn = lambda: getattr(m_install, "install_" + kind)(S(sp), fp, **kw)
        elif kind == "adf12":
            keys = [("beam_cx", {"d": op["d"], "sp": sp, "ch": op["ch"], "tr": tr, "m": op["m"]}) for tr in op["trs"]]
            fn = lambda: m_install.install_adf12(S(op["d"]), op["m"], S(sp), op["ch"], fp, **kw)
        elif kind == "adf15":
            keys = []
            for b in op["blocks"]:
                if b["type"] == "EXCIT":
                    keys.append(("pec_excitation", {"sp": sp, "ch": op["ch"], "tr": b["tr"]}))
                elif b["type"] == "RECOM":
                    keys.append(("pec_recombination", {"sp": sp, "ch": op["ch"], "tr": b["tr"]}))
                else:
                    keys.append(("pec_thermal_cx", {"d": "H", "dc": 0, "sp": sp, "ch": op["ch"] + 1, "tr": b["tr"]}))
                keys.append(("wavelength", {"sp": sp, "ch": op["ch"], "tr": b["tr"]}))
            fn = lambda: m_install.install_adf15(S(sp), op["ch"], fp, header_format="hydrogen", **kw)
        elif kind == "adf21":
            keys = [("beam_stopping", {"b": op["b"], "sp": sp, "ch": op["ch"]})]
            fn = lambda: m_install.install_adf21(S(op["b"]), S(sp), op["ch"], fp, **kw)
        elif kind == "adf22bmp":
            keys = [("beam_population", {"b": op["b"], "m": op["m"], "sp": sp, "ch": op["ch"]})]
            fn = lambda: m_install.install_adf22bmp(S(op["b"]), op["m"], S(sp), op["ch"], fp, **kw)
        else:
            keys = [("beam_emission", {"b": op["b"], "sp": sp, "ch": op["ch"], "tr": op["tr"]})]
            fn = lambda: m_install.install_adf22bme(S(op["b"]), S(sp), op["ch"], tuple(op["tr"]), fp, **kw)
        return fn, keys

    def _do_install(self, c, op, env, w0, d0, f0):
        root = op["root"]
        text = self._adf_text(op)
        stale = bool(op.get("stale_cache")) and not c.fault_mode
        if stale:
            # the file is present under adas_path *and* an older, different copy sits in the repository's download cache
            c.fs.add_file(os.path.join(c.cfg["adas_path"], op["file"]), text)
            older = self._adf_text(dict(op, tag=(op["tag"] + 1) % 1000))
            cache_dir = os.path.join(self._root(root), "_download_cache", os.path.dirname(op["file"]))
            c.fs.os.makedirs(cache_dir, exist_ok=True)
            c.fs.add_file(os.path.join(self._root(root), "_download_cache", op["file"]), older)
            op = dict(op, download=True)
            env.probe("install_with_stale_download_cache")
        elif op["download"]:
            c.fs.archive[op["file"].replace("#", "][").lstrip("/")] = text
        else:
            c.fs.add_file(os.path.join(c.cfg["adas_path"], op["file"]), text)
        fn, keys = self._install_plan(c, op)
        covered = {}
        for fam, key in keys:
            ck = ckey(fam, root, key)
            covered[ck] = (fam, key)
            c.pending_info[ck] = {"fam": fam, "root": root, "key": key}
        before = dict(c.fs.files)
        for ck in covered:
            if ck in c.model:
                env.probe("install_into_key_written_by_add")
                env.nontrivial = True
        try:
            fn()
            raised = None
        except Exception as e:
            raised = e
        self._absorb_faults(c, f0)
        self._footprint(c, env, root, w0, d0)
        # documented footprint: only files of the family/species/charge named by the call (+ the download cache) may change
        allowed = {self._abs(c, root, file_of(fam, key)) for fam, key in covered.values()}
        cache = c.fs.norm(os.path.join(self._root(root), "_download_cache"))
        for p, content in c.fs.files.items():
            if before.get(p) != content and p not in allowed and not p.startswith(cache + "/"):
                raise Violation("install-footprint", op["kind"], "install changed %r, which does not belong to the species/charge it names" % p)
        fault_fired = len(c.fs.fired) > f0
        touching_poisoned = bool(allowed & c.poisoned)
        if raised is not None and not (fault_fired or touching_poisoned or c.fault_mode):
            raise Violation("write-refused", "install_" + op["kind"], "installing a well-formed generated %s file raised %s: %s" % (
                op["kind"], type(raised).__name__, raised))
        if raised is None and not c.fault_mode:
            # every covered key must now be readable (values are adopted, not predicted)
            for ck, (fam, key) in covered.items():
                how, val = self._read(c, fam, key, root)
                if how != "ok":
                    raise Violation("install-key-missing", op["kind"], "after a successful install key %r is %s" % (ck, how))
        if stale and raised is None:
            # differential oracle: the same call on a pristine repository (no cache) must store exactly the same tables
            c.ntwin = getattr(c, "ntwin", 0) + 1
            troot = "/sim/twin%d" % c.ntwin
            saved = ROOTS[:]
            ROOTS.append(troot)
            try:
                top = dict(op, root=len(ROOTS) - 1, download=False)
                tfn, tkeys = self._install_plan(c, top)
                tfn()
                for (fam, key) in tkeys:
                    ha, va = self._read(c, fam, key, root)
                    hb, vb = self._read(c, fam, key, len(ROOTS) - 1)
                    if ha != hb or va != vb:
                        raise Violation("install-stale-source", op["kind"], "key %r: the repository with an older cached copy of the file holds "
                                        "%s, a pristine repository holds %s after the same install call" % (ckey(fam, root, key), ha, hb))
            finally:
                ROOTS[:] = saved
        part_key = {"adf15": "blocks", "adf12": "trs"}.get(op["kind"])
        if part_key and raised is None and not c.fault_mode and len(op[part_key]) > 1:
            # differential oracle: a key installed from a file with several blocks holds what the same block installed on its own
            # gives (blocks in file order into one pristine repository, so a repeated key is won by the last block in both)
            c.ntwin = getattr(c, "ntwin", 0) + 1
            saved = ROOTS[:]
            ROOTS.append("/sim/twin%d" % c.ntwin)
            try:
                for j, part in enumerate(op[part_key]):
                    top = dict(op, root=len(ROOTS) - 1, download=False, stale_cache=False, file="adf/%s/single-%d-%d.dat" % (op["kind"], c.ntwin, j))
                    top[part_key] = [part]
                    c.fs.add_file(os.path.join(c.cfg["adas_path"], top["file"]), self._adf_text(top))
                    tfn, _tk = self._install_plan(c, top)
                    try:
                        tfn()
                    except Exception as e:
                        raise Violation("install-block-dependence", op["kind"], "block %r installs as part of a %d-block file but raises %s: %s "
                                        "on its own" % (part, len(op[part_key]), type(e).__name__, e))
                for (fam, key) in keys:
                    ha, va = self._read(c, fam, key, root)
                    hb, vb = self._read(c, fam, key, len(ROOTS) - 1)
                    if ha != hb or va != vb:
                        raise Violation("install-block-dependence", op["kind"], "key %r: installed from the %d-block file it holds %s, the same "
                                        "block installed on its own gives %s" % (ckey(fam, root, key), len(op[part_key]), ha if ha != "ok" else "other values", hb))
                env.probe("install_blocks_compared_with_single_block_files")
            finally:
                ROOTS[:] = saved
        self._audit(c, env, "install %s" % op["kind"], unconstrained=set(covered))
        env.stats.add("installers_run", op["kind"])
        return "ok" if raised is None else "raised:" + type(raised).__name__

    def finish(self, c, env):
        c.pending_info = {}
        self._audit(c, env, "finish")
        # nothing may have reached the real disk: the scratch HOME must still be empty
        real = os.path.join(os.path.expanduser("~"), ".cherab")
        if os.path.exists(real):
            raise Violation("stray-file", "real-disk", "the real directory %s appeared (SimFS bypassed)" % real)
        if c.nwrites >= 2:
            pass

    # ------------------------------------------------------------------ shrinking
    def simplify_op(self, op):
        out = []
        if op["op"] == "update" and len(op["entries"]) > 1:
            for i in range(len(op["entries"])):
                o = dict(op)
                o["entries"] = op["entries"][:i] + op["entries"][i + 1:]
                out.append(o)
        if op["op"] == "reject" and len(op["entries"]) > 1:
            o = dict(op)
            o["entries"] = [op["entries"][op["bad"] % len(op["entries"])]]
            o["bad"] = 0
            out.append(o)
        if op["op"] == "install" and op.get("download"):
            o = dict(op)
            o["download"] = False
            out.append(o)
        return out

    def simplify_config(self, cfg):
        out = []
        if cfg.get("faults"):
            c = dict(cfg)
            c["faults"] = False
            out.append(c)
        return out
