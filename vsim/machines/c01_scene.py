"""C01 — plasma/beam/laser changes never leave stale derived state.

Real: cherab.core Plasma / Beam / Laser nodes, model managers, materials, every emission model, SingleRayAttenuator,
line shapes, Notifier, raysect scene graph + ray tracer + integrators.
Stub: SimAtomicData (analytic provider with missing-data sets and call-indexed failures), object-lifetime seam
(gc disabled; explicit gc / drop / keep decisions), analytic profile functions.

History = public mutators interleaved with observations, object drops, collections and provider faults.
Oracle = the same observations on a scene built from scratch, in one canonical order, from the value specification.
"""

import copy
import gc
import math

import numpy as np
from raysect.core import Node, Point3D, Vector3D, translate, rotate_basis, AffineMatrix3D
from raysect.core.math.function.float import Arg3D, Exp3D
from raysect.optical import World, Ray
from raysect.optical.material.emitter.inhomogeneous import NumericalIntegrator
from raysect.primitive import Box, Sphere, Cylinder

from cherab.core import Plasma, Beam, Species, Maxwellian
from cherab.core.laser import Laser
from cherab.core.atomic import Line, deuterium, hydrogen, helium, carbon, neon
from cherab.core.model import (ExcitationLine, RecombinationLine, ThermalCXLine, Bremsstrahlung, TotalRadiatedPower,
                               BeamCXLine, BeamEmissionLine, SingleRayAttenuator, GaussianLine, ZeemanTriplet,
                               MultipletLineShape, ParametrisedZeemanTriplet, StarkBroadenedLine, ZeemanMultiplet)
from cherab.core.model.laser import (SeldenMatobaThomsonSpectrum, ConstantSpectrum, GaussianSpectrum, UniformEnergyDensity,
                                     ConstantBivariateGaussian)

from ..core import Violation, HarnessError, arrays_close, close
from ..machine import Machine
from ..seams.provider import SimAtomicData, SimGaunt, _u
from cherab.core.math.integrators import GaussianQuadrature
from ..seams.simfunc import SimFault, SimInterrupt
from ..seams.pristine import PristineServer
from .c18_laser import PROFILE_ATTRS as LP_ATTRS, SPECTRUM_ATTRS as LS_ATTRS, construct as laser_construct

EL = {"H": hydrogen, "D": deuterium, "He": helium, "C": carbon, "Ne": neon}
MASS = {"H": 1.008, "D": 2.014, "He": 4.0026, "C": 12.011, "Ne": 20.18}
SPECIES_POOL = [("D", 0), ("D", 1), ("He", 1), ("He", 2), ("C", 5), ("C", 6), ("Ne", 9), ("Ne", 10), ("H", 0), ("H", 1)]
TRANS = {"D": [(3, 2), (4, 2)], "H": [(3, 2), (4, 2)], "He": [(4, 3), (3, 2)], "C": [(8, 7), (7, 6)], "Ne": [(11, 10), (10, 9)]}
RTOL = 1e-9
BEAM_ATTRS = ["energy", "power", "temperature", "sigma", "divergence_x", "divergence_y", "length"]


def wavelength_of(el, ch, tr):
    return 420.0 + 260.0 * (_u("wl", el, ch, tuple(tr)) - 0.5)


# ------------------------------------------------------------------------------------------ spec generators
def gen_unit(rng):
    while True:
        v = [rng.uniform(-1, 1) for _ in range(3)]
        n = math.sqrt(sum(c * c for c in v))
        if 0.3 < n <= 1.0 and min(abs(c) for c in v) / n > 0.12:      # oblique to every axis
            return [round(c / n, 4) for c in v]


def gen_transform(rng, scale=0.3, toward_origin=False, dist=1.4):
    fwd = gen_unit(rng)
    while True:
        up = gen_unit(rng)
        cx = [fwd[1] * up[2] - fwd[2] * up[1], fwd[2] * up[0] - fwd[0] * up[2], fwd[0] * up[1] - fwd[1] * up[0]]
        if math.sqrt(sum(c * c for c in cx)) > 0.4:
            break
    if toward_origin:
        off = [rng.uniform(-0.15, 0.15) for _ in range(3)]
        t = [round(-dist * f + o, 4) for f, o in zip(fwd, off)]
    else:
        t = [round(rng.uniform(-scale, scale), 4) for _ in range(3)]
    return {"t": t, "fwd": fwd, "up": up}


PY_PROFILES = [0.0]      # probability that a generated profile is a Python callable (set per run by generate())
FLAT_ELECTRONS = [False]  # swarm switch: uniform electron density / temperature (caches keyed on Te can then hit)


def gen_profile(rng, base, spread=0.5):
    p = {"a": float("%.4g" % (base * math.exp(rng.uniform(-spread, spread)))),
         "g": [round(rng.choice([-1, 1]) * rng.uniform(0.15, 0.6), 3) for _ in range(3)]}
    if rng.random() < PY_PROFILES[0]:
        p["py"] = True
        if rng.random() < 0.4:
            p["cut"] = [rng.randrange(3), round(rng.uniform(-0.3, 0.3), 3), rng.choice([1, -1])]
    return p


def gen_dist(rng, mass, n0, t0):
    v = gen_unit(rng)
    s = rng.uniform(2e4, 2e5)
    d = {"n": gen_profile(rng, n0), "t": gen_profile(rng, t0, 0.4), "v": [round(c * s, 1) for c in v], "m": mass}
    if FLAT_ELECTRONS[0] and mass < 1e-3:
        d["n"]["g"] = [0.0, 0.0, 0.0]
        d["t"]["g"] = [0.0, 0.0, 0.0]
    return d


def gen_species(rng, el, ch):
    n0 = {0: 2e16, 1: 4e19}.get(ch, 3e17)
    return {"el": el, "ch": ch, "dist": gen_dist(rng, MASS[el], n0, 150.0)}


def gen_geometry(rng):
    k = rng.choice(["box", "sphere", "cylinder"])
    if k == "box":
        return {"kind": "box", "h": [round(rng.uniform(0.5, 1.0), 3) for _ in range(3)]}
    if k == "sphere":
        return {"kind": "sphere", "r": round(rng.uniform(0.6, 1.1), 3)}
    return {"kind": "cylinder", "r": round(rng.uniform(0.5, 0.9), 3), "h": round(rng.uniform(1.0, 1.8), 3)}


def gen_line(rng, species):
    """A line whose emitting species is (usually) in the composition."""
    Z = {"H": 1, "D": 1, "He": 2, "C": 6, "Ne": 10}
    cands = []
    for s in species:
        el, ch = s["el"], s["ch"]
        if ch < Z[el]:
            cands.append((el, ch))
        if ch > 0:
            cands.append((el, ch - 1))
    if not cands or rng.random() < 0.07:
        el, ch = rng.choice([x for x in SPECIES_POOL if x[1] < Z[x[0]]])
    else:
        el, ch = rng.choice(cands)
    return {"el": el, "ch": ch, "tr": list(rng.choice(TRANS[el]))}


def gen_lineshape(rng):
    u = rng.random()
    if u < 0.42:
        return {"cls": "gaussian"}
    if u < 0.54:
        ls = {"cls": "zeeman"}
    elif u < 0.67:
        ls = {"cls": "pzeeman", "params": [round(rng.uniform(0.02, 0.2), 4), round(rng.uniform(0.0, 1.5), 3), round(rng.uniform(0.0, 1.0), 3)]}
    elif u < 0.77:
        ls = {"cls": "stark", "coeffs": [round(rng.uniform(2e-3, 4e-3), 6), round(rng.uniform(0.6, 0.8), 4), round(rng.uniform(0.02, 0.04), 5)]}
    elif u < 0.88:
        return {"cls": "multiplet", "mult": [[round(rng.uniform(-0.3, 0.3), 3) for _ in range(2)], [0.4, 0.6]]}
    else:
        ls = {"cls": "zmultiplet"}          # ZeemanMultiplet: the structure always comes from the provider
    # round 8: the Zeeman family takes its parameters from the atomic-data provider when none are handed over (so they
    # change with the provider), and a polarisation filter
    if ls["cls"] in ("pzeeman", "stark") and rng.random() < 0.35:
        ls.pop("params", None)
        ls.pop("coeffs", None)
    v = rng.random()
    if v < 0.4:
        ls["pol"] = "pi" if v < 0.2 else "sigma"
    return ls


def gen_plasma_model(rng, species):
    u = rng.random()
    if u < 0.3:
        return {"cls": "ExcitationLine", "line": gen_line(rng, species), "ls": gen_lineshape(rng)}
    if u < 0.5:
        return {"cls": "RecombinationLine", "line": gen_line(rng, species), "ls": gen_lineshape(rng)}
    if u < 0.7:
        return {"cls": "ThermalCXLine", "line": gen_line(rng, species), "ls": gen_lineshape(rng)}
    if u < 0.85:
        m = {"cls": "Bremsstrahlung"}
        if rng.random() < 0.35:
            m["gaunt"] = round(rng.uniform(0.7, 1.6), 3)           # a user-provided Gaunt factor
        if rng.random() < 0.25:
            m["quad"] = [rng.choice([1e-5, 1e-3]), rng.choice([50, 12]), rng.choice([1, 3])]
        return m
    s = rng.choice(species) if species else {"el": "C", "ch": 5}
    ch = min(s["ch"], {"H": 0, "D": 0, "He": 1, "C": 5, "Ne": 9}[s["el"]])
    return {"cls": "TotalRadiatedPower", "el": s["el"], "ch": ch}


def gen_beam_model(rng, species, beam_el):
    if rng.random() < 0.65:
        return {"cls": "BeamCXLine", "line": gen_line(rng, [s for s in species if s["ch"] > 0] or species), "ls": gen_lineshape(rng)}
    return {"cls": "BeamEmissionLine", "line": {"el": beam_el if rng.random() < 0.93 else {"D": "H", "H": "D"}[beam_el], "ch": 0, "tr": [3, 2]}}


def gen_attenuator(rng):
    return {"step": rng.choice([0.02, 0.05, 0.11]), "clamp_to_zero": rng.random() < 0.5, "clamp_sigma": rng.choice([2.0, 3.0, 5.0])}


def gen_beam_value(rng, attr):
    if attr == "energy":
        return float("%.5g" % rng.uniform(2e4, 9e4))
    if attr == "power":
        return float("%.5g" % rng.uniform(5e5, 3e6))
    if attr == "temperature":
        return float("%.4g" % rng.uniform(1, 30))
    if attr == "sigma":
        return round(rng.uniform(0.04, 0.15), 4)
    if attr in ("divergence_x", "divergence_y"):
        return rng.choice([0.0, round(rng.uniform(0.2, 6.0), 3)])
    if attr == "length":
        return round(rng.uniform(1.2, 3.2), 3)
    raise KeyError(attr)


PAIRS = [[("D", 0), ("D", 1)], [("He", 1), ("He", 2)], [("C", 5), ("C", 6)], [("Ne", 9), ("Ne", 10)]]


def gen_laser_profile(rng):
    kind = rng.choice(["uniform", "bivariate", "trivariate", "gaussbeam"])
    spec = {"laser_length": round(rng.uniform(2.2, 3.2), 3), "laser_radius": round(rng.uniform(0.08, 0.22), 3),
            "polarization": gen_unit(rng)}
    if kind == "uniform":
        spec["energy_density"] = float("%.4g" % rng.uniform(1.0, 50.0))
    else:
        spec["pulse_energy"] = float("%.4g" % rng.uniform(0.5, 5.0))
        spec["pulse_length"] = float("%.4g" % rng.uniform(5e-9, 3e-8))
    if kind in ("bivariate", "trivariate"):
        spec["stddev_x"] = round(rng.uniform(0.03, 0.1), 4)
        spec["stddev_y"] = round(rng.uniform(0.03, 0.1), 4)
    if kind == "trivariate":
        spec["mean_z"] = round(rng.uniform(0.8, 2.0), 3)
    if kind == "gaussbeam":
        spec["waist_z"] = round(rng.uniform(0.8, 2.0), 3)
        spec["stddev_waist"] = round(rng.uniform(0.02, 0.06), 4)
        spec["laser_wavelength"] = 532.0
    return {"kind": kind, "spec": spec}


def gen_laser_spectrum(rng):
    lo = round(rng.uniform(520.0, 540.0), 2)
    if rng.random() < 0.5:
        return {"kind": "constspec", "spec": {"min_wavelength": lo, "max_wavelength": round(lo + rng.uniform(0.5, 3.0), 2), "bins": rng.choice([1, 2, 3])}}
    return {"kind": "gaussspec", "spec": {"min_wavelength": lo, "max_wavelength": round(lo + 3.0, 2), "bins": rng.choice([1, 3, 5]),
                                         "mean": round(lo + rng.uniform(0.5, 2.5), 2), "stddev": round(rng.uniform(0.2, 1.0), 3)}}


def gen_laser(rng, npl):
    return {"parent": rng.choice(["frame", "world"]), "transform": gen_transform(rng, toward_origin=True, dist=rng.uniform(1.2, 1.6)),
            "rider": rng.choice([None, None, round(rng.uniform(0.8, 1.6), 3)]),
            "plasma": rng.randrange(npl), "importance": rng.choice([1.0, 1.0, 3.0]), "profile": gen_laser_profile(rng),
            "spectrum": gen_laser_spectrum(rng), "models": rng.choice([1, 1, 1, 0]), "integrator_step": rng.choice([0.02, 0.035, 0.05])}


def gen_composition(rng):
    # neighbouring charge states come in pairs (recombination / CX / total-radiation models need both);
    # a member is dropped now and then so that "species missing" paths stay reachable
    keys = []
    for pair in rng.sample(PAIRS, rng.randint(1, 3)):
        for k in pair:
            if rng.random() < 0.9:
                keys.append(k)
    if not any(ch > 0 for _, ch in keys):
        keys.append(("D", 1))
    rng.shuffle(keys)
    return [gen_species(rng, el, ch) for el, ch in keys[:5]]


def gen_plasma(rng, nprov):
    comp = gen_composition(rng)
    return {"parent": rng.choice(["frame", "world"]), "transform": gen_transform(rng, 0.2),
            "bfield": [round(c * rng.uniform(1, 4), 3) for c in gen_unit(rng)],
            "electron": gen_dist(rng, 5.4858e-4, 5e19, 200.0), "composition": comp, "geometry": gen_geometry(rng),
            "geometry_transform": gen_transform(rng, 0.1) if rng.random() < 0.4 else None,
            "integrator_step": rng.choice([0.02, 0.035, 0.05]), "provider": rng.randrange(nprov),
            "models": [gen_plasma_model(rng, comp) for _ in range(rng.choice([0, 1, 2, 2, 3]))],
            "rider": gen_rider(rng, "p")}


def mark_default_integrators(rng, spec):
    """Swarm: in some two-plasma scenes the plasmas are built without an explicit integrator (the constructor's default,
    1 mm step) and the step is later changed in place, the idiom of the library's own demos."""
    if len(spec["plasmas"]) > 1 and rng.random() < 0.3:
        for ps in spec["plasmas"]:
            ps["integrator_default"] = True
            ps["integrator_step"] = 0.001


def gen_beam(rng, nprov, plasmas, pi):
    el = rng.choice(["D", "H"])
    b = {"parent": rng.choice(["frame", "world"]), "transform": gen_transform(rng, toward_origin=True, dist=rng.uniform(1.2, 1.6)),
         "element": el, "provider": rng.randrange(nprov), "plasma": pi, "attenuator": gen_attenuator(rng),
         "integrator_step": rng.choice([0.02, 0.035, 0.05]),
         "models": [gen_beam_model(rng, plasmas[pi]["composition"], el) for _ in range(rng.choice([0, 1, 2, 2, 3]))]}
    for a in BEAM_ATTRS:
        b[a] = gen_beam_value(rng, a)
    b["rider"] = gen_rider(rng, "b")
    return b


def gen_rider(rng, kind):
    """A user primitive parented to the plasma / beam node itself (small emitting sphere well away from every bounding volume)."""
    if rng.random() < 0.6:
        return None
    if kind == "b":
        return [round(rng.uniform(-0.3, 0.3), 3), round(rng.uniform(-0.3, 0.3), 3), round(rng.uniform(-7.0, -5.0), 3)]
    d = gen_unit(rng)
    r = rng.uniform(4.0, 5.0)
    return [round(c * r, 3) for c in d]


def axis_point(spec, kind, i, z):
    """World position (at generation time) of the point (0, 0, z) of a beam / laser axis."""
    es = spec["beams"][i] if kind == "b" else spec["laser"]
    m = mk_transform(es["transform"])
    if es["parent"] == "frame":
        m = mk_transform(spec["frames"]["f%s%d" % (kind, i)]) * m
    pt = Point3D(0, 0, z).transform(m)
    return [pt.x, pt.y, pt.z]


def gen_ray(rng, spec):
    d = gen_unit(rng)
    p = [rng.uniform(-0.25, 0.25) for _ in range(3)]
    targets = [("b", i) for i in range(len(spec["beams"]))] + ([("l", 0)] if spec.get("laser") else [])
    if targets and rng.random() < 0.5:
        kind, i = rng.choice(targets)
        wide = rng.random() < 0.4        # also far down the axis and well off it: where a re-sized bounding volume differs from the old one
        p = axis_point(spec, kind, i, rng.uniform(0.4, 2.8) if wide else rng.uniform(0.9, 1.9))
        off = 0.25 if wide and rng.random() < 0.5 else 0.03
        p = [c + rng.uniform(-off, off) for c in p]
    o = [round(pc - 3.0 * dc, 4) for pc, dc in zip(p, d)]
    lines = []
    for pl in spec["plasmas"]:
        for m in pl["models"]:
            if "line" in m:
                lines.append(m["line"])
    for b in spec["beams"]:
        for m in b["models"]:
            if "line" in m:
                lines.append(m["line"])
    if lines and rng.random() < 0.4:
        ln = rng.choice(lines)
        w = wavelength_of(ln["el"], ln["ch"], ln["tr"])
        return {"o": o, "d": d, "min": round(w - 0.6, 4), "max": round(w + 0.6, 4), "bins": 24}
    return {"o": o, "d": d, "min": 280.0, "max": rng.choice([700.0, 700.0, 560.0]), "bins": 21}


def comp_merge(comp, x):
    for j, e in enumerate(comp):
        if (e["el"], e["ch"]) == (x["el"], x["ch"]):
            comp[j] = x
            return
    comp.append(x)


def apply_spec(sp, op):
    """How a *successful* mutator changes the value specification (used by the executor and by the generator)."""
    k = op["op"]
    if k == "frame.transform":
        if op["name"] in sp["frames"]:
            sp["frames"][op["name"]] = op["t"]
        return
    # free-standing attenuators die with the node objects they were built around
    if k == "b.recreate" and sp["beams"]:
        i = op["i"] % len(sp["beams"])
        sp["free_atts"] = [f for f in sp.get("free_atts", []) if f["beam"] != i]
    if k == "p.recreate":
        i = op["i"] % len(sp["plasmas"])
        sp["free_atts"] = [f for f in sp.get("free_atts", []) if f["plasma"] != i]
    if k.startswith("p."):
        ps = sp["plasmas"][op["i"] % len(sp["plasmas"])]
        if k == "p.bfield":
            ps["bfield"] = op["v"]
        elif k == "p.electron":
            ps["electron"] = op["dist"]
        elif k == "p.comp.add":
            comp_merge(ps["composition"], op["species"])
        elif k == "p.comp.set":
            comp = []
            for x in op["species"]:
                comp_merge(comp, x)
            ps["composition"] = comp
        elif k == "p.comp.clear":
            ps["composition"] = []
        elif k == "p.geometry":
            ps["geometry"] = op["geometry"]
        elif k == "p.geomtransform":
            ps["geometry_transform"] = op["t"]
        elif k == "p.integrator":
            ps["integrator_step"] = op["step"]
            if not op.get("inplace"):
                ps["integrator_default"] = False
        elif k == "p.models.set":
            if op.get("keep"):
                sp.setdefault("_kept_pm", []).extend(ps["models"])
            ps["models"] = list(op["models"])
        elif k == "p.models.add":
            if len(ps["models"]) < 4:
                ps["models"].append(op["model"])
        elif k == "p.models.clear":
            if op.get("keep"):
                sp.setdefault("_kept_pm", []).extend(ps["models"])
            ps["models"] = []
        elif k == "p.model.attr":
            idx = [j for j, m in enumerate(ps["models"]) if m["cls"] == "Bremsstrahlung"]
            if idx:
                j = idx[op["which"] % len(idx)]
                ps["models"][j] = dict(ps["models"][j], **{op["attr"]: op["value"]})
        elif k == "p.models.permute":
            if ps["models"]:
                idx = []
                for j in op["order"]:
                    j = j % len(ps["models"])
                    if j not in idx:
                        idx.append(j)
                ps["models"] = [ps["models"][j] for j in idx]
        elif k == "p.models.readd":
            kept = sp.get("_kept_pm", [])
            if kept and len(ps["models"]) < 4:
                ps["models"].append(kept.pop(op["which"] % len(kept)))
        elif k == "p.atomic_data":
            ps["provider"] = op["prov"] % len(sp["providers"])
        elif k == "p.unset":
            ps["provider" if op["what"] == "atomic_data" else "geometry"] = None
        elif k == "p.transform":
            ps["transform"] = op["t"]
        elif k == "p.parent":
            ps["parent"] = op["to"]
        return
    if k.startswith("l."):
        ls = sp.get("laser")
        if not ls:
            return
        if k == "l.profile.set":
            if op["attr"] in ls["profile"]["spec"]:
                ls["profile"]["spec"][op["attr"]] = op["value"]
        elif k == "l.profile.polarize":
            ls["profile"]["spec"]["polarization"] = op["v"]
        elif k == "l.profile":
            ls["profile"] = copy.deepcopy(op["profile"])
        elif k == "l.spectrum":
            ls["spectrum"] = copy.deepcopy(op["spectrum"])
        elif k == "l.unset":
            ls["spectrum"] = None
        elif k == "l.spectrum.set":
            if ls["spectrum"] and op["attr"] in ls["spectrum"]["spec"]:
                ls["spectrum"]["spec"][op["attr"]] = op["value"]
        elif k == "l.plasma":
            ls["plasma"] = op["to"] % len(sp["plasmas"])
        elif k == "l.importance":
            ls["importance"] = op["value"]
        elif k == "l.integrator":
            ls["integrator_step"] = op["step"]
        elif k == "l.models":
            ls["models"] = op["n"]
        elif k == "l.transform":
            ls["transform"] = op["t"]
        elif k == "l.parent":
            ls["parent"] = op["to"]
        elif k == "l.recreate":
            if ls["spectrum"] is None:
                # a laser built from scratch cannot take models while it has no spectrum (refused before they are stored):
                # the re-created node therefore starts without models
                ls["models"] = 0
        return
    if k.startswith("fa."):
        fas = sp.setdefault("free_atts", [])
        if k == "fa.make":
            if sp["beams"] and len(fas) < 2:
                i = op["i"] % len(sp["beams"])
                fas.append({"beam": i, "plasma": sp["beams"][i]["plasma"], "provider": sp["beams"][i]["provider"], "att": dict(op["att"])})
        elif fas:
            fas[op["which"] % len(fas)]["att"]["step" if k == "fa.step" else "clamp_sigma"] = op["value"]
        return
    if not k.startswith("b.") or not sp["beams"]:
        return
    bs = sp["beams"][op["i"] % len(sp["beams"])]
    if k == "b.set":
        bs[op["attr"]] = op["value"]
    elif k == "b.element":
        bs["element"] = op["el"]
    elif k == "b.atomic_data":
        bs["provider"] = op["prov"] % len(sp["providers"])
    elif k == "b.plasma":
        bs["plasma"] = op["to"] % len(sp["plasmas"])
    elif k == "b.attenuator":
        if op.get("keep"):
            sp.setdefault("_kept_att", []).append([op["i"] % len(sp["beams"]), dict(bs["attenuator"])])
        bs["attenuator"] = dict(op["att"])
    elif k == "b.att.restore":
        kept = sp.setdefault("_kept_att", [])
        i = op["i"] % len(sp["beams"])
        cand = [n for n, (bi, _a) in enumerate(kept) if bi == i]
        if cand:
            _bi, a = kept.pop(cand[op["which"] % len(cand)])
            if op.get("keep"):
                kept.append([i, dict(bs["attenuator"])])
            bs["attenuator"] = a
    elif k == "b.att.step":
        bs["attenuator"]["step"] = op["value"]
    elif k == "b.att.clamp_sigma":
        bs["attenuator"]["clamp_sigma"] = op["value"]
    elif k == "b.models.set":
        if op.get("keep"):
            sp.setdefault("_kept_bm", []).extend(bs["models"])
        bs["models"] = list(op["models"])
    elif k == "b.models.add":
        if len(bs["models"]) < 4:
            bs["models"].append(op["model"])
    elif k == "b.models.clear":
        if op.get("keep"):
            sp.setdefault("_kept_bm", []).extend(bs["models"])
        bs["models"] = []
    elif k == "b.models.permute":
        if bs["models"]:
            idx = []
            for j in op["order"]:
                j = j % len(bs["models"])
                if j not in idx:
                    idx.append(j)
            bs["models"] = [bs["models"][j] for j in idx]
    elif k == "b.models.readd":
        kept = sp.get("_kept_bm", [])
        if kept and len(bs["models"]) < 4:
            bs["models"].append(kept.pop(op["which"] % len(kept)))
    elif k == "b.model.line":
        idx = [j for j, m in enumerate(bs["models"])]
        if idx:
            j = idx[op["which"] % len(idx)]
            if bs["models"][j]["cls"] == "BeamCXLine":
                bs["models"][j] = dict(bs["models"][j], line=op["line"])
            else:
                bs["models"][j] = dict(bs["models"][j], line={"el": op.get("bel", "D"), "ch": 0, "tr": [3, 2]})
    elif k == "b.integrator":
        bs["integrator_step"] = op["step"]
    elif k == "b.transform":
        bs["transform"] = op["t"]
    elif k == "b.parent":
        bs["parent"] = op["to"]


# ------------------------------------------------------------------------------------------ builders
def mk_transform(t):
    if t is None:
        return AffineMatrix3D()
    return translate(*t["t"]) * rotate_basis(Vector3D(*t["fwd"]), Vector3D(*t["up"]))


_CURRENT = [None]     # scene whose profile-call counter / fault plan newly built Python profiles bind to


class SimProfile:
    """A user-style Python profile function a*exp(g.x) behind a call counter and a call-indexed fault plan."""

    def __init__(self, p, scene):
        self.a = p["a"]
        self.g = p["g"]
        self.cut = p.get("cut")          # [axis, position, +1|-1]: the profile is exactly zero on one side of a plane
        self.scene = scene

    def __call__(self, x, y, z):
        sc = self.scene
        if sc is not None:
            k = sc.pcounter[0]
            sc.pcounter[0] += 1
            kind = sc.pfault_at.pop(k, None)
            if kind is not None:
                sc.fired.append((k, kind, "profile"))
                if kind == "interrupt":
                    raise SimInterrupt("injected interruption in profile call %d" % k)
                raise SimFault("injected failure in profile call %d" % k)
        g = self.g
        if self.cut is not None and (x, y, z)[self.cut[0]] * self.cut[2] > self.cut[1] * self.cut[2]:
            return 0.0
        return self.a * math.exp(g[0] * x + g[1] * y + g[2] * z)


def mk_profile(p):
    if p.get("py"):
        return SimProfile(p, _CURRENT[0])
    g = p["g"]
    return p["a"] * Exp3D(g[0] * Arg3D("x") + g[1] * Arg3D("y") + g[2] * Arg3D("z"))


def mk_dist(d):
    return Maxwellian(mk_profile(d["n"]), mk_profile(d["t"]), Vector3D(*d["v"]), d["m"] * 1.66053906660e-27)


def mk_species(s):
    return Species(EL[s["el"]], s["ch"], mk_dist(s["dist"]))


def mk_integrator(step):
    """raysect's NumericalIntegrator.__init__ takes a C float (32 bit) but its `step` setter a double: always finish
    with the setter so that a constructed and an in-place-modified integrator hold the same step."""
    i = NumericalIntegrator(step=step)
    i.step = step
    return i


def mk_geometry(g):
    if g["kind"] == "box":
        h = g["h"]
        return Box(Point3D(-h[0], -h[1], -h[2]), Point3D(h[0], h[1], h[2]))
    if g["kind"] == "sphere":
        return Sphere(g["r"])
    return Cylinder(g["r"], g["h"])


def mk_line(l):
    return Line(EL[l["el"]], l["ch"], tuple(l["tr"]))


def mk_lineshape_kw(ls):
    if ls is None or ls["cls"] == "gaussian":
        return {"lineshape": GaussianLine}
    if ls["cls"] == "multiplet":
        return {"lineshape": MultipletLineShape, "lineshape_args": [ls["mult"]]}
    kw = {}
    if ls["cls"] == "zeeman":
        cls = ZeemanTriplet
    elif ls["cls"] == "pzeeman":
        cls = ParametrisedZeemanTriplet
        if ls.get("params") is not None:
            kw["line_parameters"] = tuple(ls["params"])
    elif ls["cls"] == "stark":
        cls = StarkBroadenedLine
        if ls.get("coeffs") is not None:
            kw["stark_model_coefficients"] = tuple(ls["coeffs"])
    elif ls["cls"] == "zmultiplet":
        cls = ZeemanMultiplet
    else:
        raise HarnessError(ls["cls"])
    if ls.get("pol"):
        kw["polarisation"] = ls["pol"]
    return {"lineshape": cls, "lineshape_kwargs": kw} if kw else {"lineshape": cls}


_KWREG = {}       # id(model) -> the lineshape_args / lineshape_kwargs containers the caller (this harness) handed over and keeps


def _line_model(cls, m):
    kw = mk_lineshape_kw(m.get("ls"))
    model = cls(mk_line(m["line"]), **kw)
    _KWREG[id(model)] = kw
    return model


def caller_edits_lineshape_containers(model):
    """The caller re-uses the list / dict it passed to the constructor for something else.  True if anything was edited."""
    kw = _KWREG.get(id(model))
    if not kw:
        return False
    done = False
    d = kw.get("lineshape_kwargs")
    if d:
        for key in list(d):
            d[key] = {"pi": "sigma", "sigma": "no", "no": "pi"}[d[key]] if isinstance(d[key], str) else tuple(v * 1.37 for v in d[key])
        done = True
    lst = kw.get("lineshape_args")
    if lst:
        lst[0] = [[x + 0.11 for x in lst[0][0]], [0.7, 0.3]]
        done = True
    return done


def mk_plasma_model(m):
    c = m["cls"]
    if c == "ExcitationLine":
        return _line_model(ExcitationLine, m)
    if c == "RecombinationLine":
        return _line_model(RecombinationLine, m)
    if c == "ThermalCXLine":
        return _line_model(ThermalCXLine, m)
    if c == "Bremsstrahlung":
        kw = {}
        if m.get("gaunt") is not None:
            kw["gaunt_factor"] = SimGaunt(m["gaunt"])
        if m.get("quad") is not None:
            kw["integrator"] = GaussianQuadrature(relative_tolerance=m["quad"][0], max_order=m["quad"][1], min_order=m["quad"][2])
        return Bremsstrahlung(**kw)
    if c == "TotalRadiatedPower":
        return TotalRadiatedPower(EL[m["el"]], m["ch"])
    raise HarnessError(c)


def mk_beam_model(m):
    if m["cls"] == "BeamCXLine":
        return _line_model(BeamCXLine, m)
    return BeamEmissionLine(mk_line(m["line"]))


def mk_attenuator(a):
    return SingleRayAttenuator(step=a["step"], clamp_to_zero=a["clamp_to_zero"], clamp_sigma=a["clamp_sigma"])


class Scene:
    """Live objects of one scene (subject or twin)."""

    def __init__(self):
        self.world = None
        self.frames = {}
        self.plasmas = []
        self.beams = []
        self.providers = []
        self.counter = [0]
        self.fault_at = {}
        self.fired = []
        self.laser = None
        self.pcounter = [0]
        self.pfault_at = {}
        self.rider = None
        self.riders = {}
        self.free_atts = []
        self.subject = False


def build_scene(spec, subject=False):
    """Canonical construction order: everything that determines geometry and data sources first, models last."""
    s = Scene()
    s.subject = subject
    _CURRENT[0] = s
    s.world = World()
    for pv in spec["providers"]:
        s.providers.append(SimAtomicData(pv["id"], pv["param"], pv["missing"], s.counter, s.fault_at, s.fired))
    for name, t in spec["frames"].items():
        s.frames[name] = Node(parent=s.world, transform=mk_transform(t), name=name)
    for i, ps in enumerate(spec["plasmas"]):
        s.plasmas.append(build_plasma(s, spec, i))
    for i, bs in enumerate(spec["beams"]):
        s.beams.append(build_beam(s, spec, i))
    s.laser = build_laser(s, spec) if spec.get("laser") else None
    for fa in spec.get("free_atts", []):
        s.free_atts.append(build_free_att(s, fa))
    return s


def build_free_att(s, fa):
    """An attenuator built with the documented constructor arguments and sampled directly (it is nobody's beam.attenuator)."""
    a = fa["att"]
    return SingleRayAttenuator(step=a["step"], clamp_to_zero=a["clamp_to_zero"], clamp_sigma=a["clamp_sigma"],
                               beam=s.beams[fa["beam"]], plasma=s.plasmas[fa["plasma"]], atomic_data=s.providers[fa["provider"]])


def parent_of(s, kind, i, where):
    if where == "world":
        return s.world
    if where == "frame":
        return s.frames["f%s%d" % (kind, i)]
    if where == "plasma0":
        return s.plasmas[0]          # a beam riding on the first plasma node (its coordinates follow that plasma)
    return None


def build_plasma(s, spec, i):
    ps = spec["plasmas"][i]
    p = Plasma(parent=parent_of(s, "p", i, ps["parent"]), transform=mk_transform(ps["transform"]), name="plasma%d" % i)
    p.b_field = Vector3D(*ps["bfield"])
    p.electron_distribution = mk_dist(ps["electron"])
    p.composition = [mk_species(x) for x in ps["composition"]]
    if ps["geometry"] is not None:
        p.geometry = mk_geometry(ps["geometry"])
    if ps["geometry_transform"] is not None:
        p.geometry_transform = mk_transform(ps["geometry_transform"])
    if s.subject and ps.get("integrator_default"):
        # the subject keeps the integrator the constructor gave it and edits the step in place; the scene rebuilt from
        # scratch always hands over an integrator of its own with the specified step
        if p.integrator.step != ps["integrator_step"]:
            p.integrator.step = ps["integrator_step"]
    else:
        p.integrator = mk_integrator(ps["integrator_step"])
    if ps["provider"] is not None:
        p.atomic_data = s.providers[ps["provider"]]
    if ps["models"]:
        try:
            p.models = [mk_plasma_model(m) for m in ps["models"]]
        except ValueError:
            if ps["geometry"] is not None and ps["provider"] is not None:
                raise          # only a plasma without geometry / atomic data may refuse its models
    attach_rider(s, ("p", i), p, ps.get("rider"))
    return p


def attach_rider(s, key, node, pos):
    """The user's own child primitive goes in last: whatever order the node was configured in, it is a child of the node."""
    s.riders.pop(key, None)
    if pos:
        from raysect.optical.material import UniformVolumeEmitter
        from raysect.optical.library.spectra.colours import green
        s.riders[key] = (Sphere(0.05, parent=node, transform=translate(*pos), material=UniformVolumeEmitter(green, 0.02), name="rider"), node, pos)


def build_beam(s, spec, i):
    bs = spec["beams"][i]
    b = Beam(parent=parent_of(s, "b", i, bs["parent"]), transform=mk_transform(bs["transform"]), name="beam%d" % i)
    for a in BEAM_ATTRS:
        setattr(b, a, bs[a])
    b.element = EL[bs["element"]]
    b.atomic_data = s.providers[bs["provider"]]
    b.plasma = s.plasmas[bs["plasma"]]
    b.attenuator = mk_attenuator(bs["attenuator"])
    b.integrator = mk_integrator(bs["integrator_step"])
    if bs["models"]:
        b.models = [mk_beam_model(m) for m in bs["models"]]
    attach_rider(s, ("b", i), b, bs.get("rider"))
    return b


def build_laser(s, spec):
    ls = spec["laser"]
    l = Laser(parent=(s.world if ls["parent"] == "world" else (s.frames["fl0"] if ls["parent"] == "frame" else None)),
              transform=mk_transform(ls["transform"]), name="laser")
    l.integrator = mk_integrator(ls["integrator_step"])
    l.plasma = s.plasmas[ls["plasma"]]
    if ls["spectrum"] is not None:
        l.laser_spectrum = laser_construct(ls["spectrum"]["kind"], ls["spectrum"]["spec"])
    l.laser_profile = laser_construct(ls["profile"]["kind"], ls["profile"]["spec"])
    l.importance = ls["importance"]
    if ls.get("rider"):
        from raysect.optical.material import UniformVolumeEmitter
        from raysect.optical.library.spectra.colours import green
        s.rider = Sphere(0.12, parent=l, transform=translate(0.35, 0.0, ls["rider"]), material=UniformVolumeEmitter(green, 0.02), name="rider")
    if ls["models"]:
        try:
            l.models = [SeldenMatobaThomsonSpectrum() for _ in range(ls["models"])]
        except ValueError:
            if ls["spectrum"] is not None:
                raise
    return l


BEAM_POINTS = [(0.0, 0.0, 0.4), (0.03, -0.02, 1.1), (-0.05, 0.04, 1.7), (0.0, 0.0, 2.6), (0.1, 0.1, 0.9), (0.0, 0.0, -0.2),
               (0.02, 0.01, 3.4), (0.3, -0.2, 1.3)]
ATT_POINTS = [(0.0, 0.0, 0.4), (0.03, -0.02, 1.1), (-0.05, 0.04, 0.8), (0.1, 0.1, 0.9), (0.0, 0.0, 0.05)]
PLASMA_POINTS = [(0.0, 0.0, 0.0), (0.2, -0.1, 0.3), (-0.3, 0.25, -0.2)]


class Ctx:
    pass


class SceneMachine(Machine):
    pid = "C01"
    title = "Plasma/beam/laser changes never leave stale derived state"
    quick_runs = 3000
    thorough_runs = 300000
    quick_deadline = 900
    thorough_deadline = 7200
    per_run_timeout = 120
    components_real = ["cherab.core Plasma/Beam nodes, Composition, ModelManager, PlasmaMaterial, BeamMaterial (compiled)",
                       "cherab.core.model: ExcitationLine, RecombinationLine, ThermalCXLine, Bremsstrahlung, TotalRadiatedPower, BeamCXLine, "
                       "BeamEmissionLine, SingleRayAttenuator, GaussianLine, ZeemanTriplet, MultipletLineShape, BeamEmissionMultiplet",
                       "cherab.core.utility.Notifier (weak-reference observer graph)", "raysect scene graph, Ray.trace, NumericalIntegrator, primitives"]
    components_stub = ["atomic data: SimAtomicData (analytic positive rates; persistent missing keys; call-indexed one-off failures)",
                       "profiles: raysect function algebra (n0*exp(g.x)) instead of user functions",
                       "object lifetime: gc disabled, explicit gc / keep / drop decide when detached objects die"]
    assumptions = [
        "rtol 1e-9 plus an absolute floor of 1e-12*max|reference| (legitimate noise measured <= 5e-15)",
        "a plasma's geometry / provider and a laser's spectrum may be unset and restored (documented refusals in between are accepted, the stored value counts); a beam always keeps its plasma, provider and attenuator",
        "user children of plasma / beam / laser nodes are small emitting spheres away from every bounding volume ('riders') and beams parented to the first plasma node",
        "user callbacks on plasma.notifier / laser.notifier only re-assign an attribute of another node to its current value and never raise",
        "a model instance is attached to one emitter at a time",
    ]
    rule = ("cases = seeded (initial scene specification, op list of mutators / observations / gc / drops / provider faults); "
            "abstraction = sequence of (op kind, attribute, channel, raised?) with values erased; non-trivial iff an observation "
            "follows a mutator that follows an earlier observation (a derived value could have gone stale)")

    # ------------------------------------------------------------------ generation
    def generate(self, rng, tier):
        nprov = rng.choice([1, 2, 2])
        fault_mode = rng.choices(["off", "persistent", "interrupt"], weights=[60, 20, 20])[0]
        PY_PROFILES[0] = rng.choice([0.0, 0.0, 0.0, 0.15, 0.4])
        FLAT_ELECTRONS[0] = rng.random() < 0.15
        spec = {"providers": [], "frames": {}, "plasmas": [], "beams": []}
        for i in range(nprov):
            spec["providers"].append({"id": i, "param": round(1.0 + 0.6 * i + rng.uniform(0, 0.2), 4), "missing": []})
        npl = rng.choice([1, 1, 2])
        for i in range(npl):
            spec["plasmas"].append(gen_plasma(rng, nprov))
            spec["frames"]["fp%d" % i] = gen_transform(rng, 0.15)
        nb = rng.choice([0, 1, 1, 2])
        for i in range(nb):
            spec["beams"].append(gen_beam(rng, nprov, spec["plasmas"], rng.randrange(npl)))
            spec["frames"]["fb%d" % i] = gen_transform(rng, 0.1)
        spec["laser"] = None
        if rng.random() < 0.35:
            spec["laser"] = gen_laser(rng, npl)
            spec["frames"]["fl0"] = gen_transform(rng, 0.1)
        if fault_mode == "persistent":
            pv = rng.choice(spec["providers"])
            for _ in range(rng.randint(1, 2)):
                pv["missing"].append(self._gen_missing(rng))
        mark_default_integrators(rng, spec)
        rays = [gen_ray(rng, spec) for _ in range(6)]
        if rays[4]["bins"] == 21:
            # the same sight line observed twice with spectral windows that share the lower edge and the bin count only
            rays[5] = dict(rays[4], max=560.0 if rays[4]["max"] == 700.0 else 700.0)
        cfg = {"spec": spec, "fault_mode": fault_mode, "rays": rays}
        # swarm: the scene "built from scratch" is built in a pristine process image (seams/pristine.py) in a quarter of the
        # runs, so that process-global state the subject's history left behind cannot reach it
        cfg["pristine"] = rng.random() < 0.25
        # swarm: subset of mutator kinds enabled in this run
        kinds = self._kinds(spec)
        enabled = rng.sample(kinds, rng.randint(2, min(len(kinds), 9)))
        if spec["plasmas"][0].get("integrator_default") and "p.integrator" not in enabled:
            enabled.append("p.integrator")
        ops = []
        gspec = copy.deepcopy(spec)        # the generator's own view of the evolving configuration (no feedback from the system)
        if "hook.add" in kinds and rng.random() < 0.2:
            # swarm: user callbacks are part of the environment from the start of this run, whatever mutator kinds it enables;
            # nodes and models created afterwards subscribe behind them
            for _ in range(rng.randint(1, 2)):
                ops.append(self._gen_mutator(rng, gspec, "hook.add", nprov))
            if "p.comp.add" not in enabled:
                enabled.append(rng.choice(["p.comp.add", "p.electron", "p.bfield"]))
        for _ in range(rng.randint(4, 40 if tier == "quick" else 60)):
            u = rng.random()
            if u < 0.45:
                m = self._gen_mutator(rng, gspec, rng.choice(enabled), nprov)
                emptied = bool(m) and (m["op"] in ("b.models.clear", "p.models.clear") or (m["op"] in ("b.models.set", "p.models.set") and not m["models"]))
                if emptied and rng.random() < 0.5:
                    m["keep"] = True                     # the user keeps the model objects and attaches the very same ones again later
                if m:
                    apply_spec(gspec, m)
                ops.append(m)
                if emptied and rng.random() < 0.7:
                    # something changes while the emitter has no models, then models come back (new ones, or the same instances)
                    pre = m["op"][0]
                    midk = (["b.set", "b.set", "b.set", "b.att.clamp_sigma", "b.attenuator", "b.integrator", "b.plasma", "b.atomic_data", "b.transform",
                             "p.comp.set", "p.comp.add", "p.electron"]
                            if pre == "b" else ["p.geometry", "p.geomtransform", "p.integrator", "p.atomic_data", "p.transform", "p.comp.set", "p.comp.set",
                                                "p.comp.add", "p.comp.add", "p.electron", "p.bfield"])
                    if rng.random() < 0.5:
                        ops.append(self._gen_observe(rng, spec))
                    mid = self._gen_mutator(rng, gspec, rng.choice(midk), nprov)
                    if mid and mid["op"][0] == "p" and pre == "b":
                        mid["i"] = gspec["beams"][m["i"] % len(gspec["beams"])]["plasma"]        # the plasma this beam looks at
                        apply_spec(gspec, mid)
                        ops.append(mid)
                        mid = None
                    back = None
                    kept_n = len(gspec.get("_kept_pm" if pre == "p" else "_kept_bm", []))
                    if m.get("keep") and kept_n and rng.random() < 0.7:
                        mid2 = mid
                        if mid2:
                            mid2["i"] = m["i"]
                            apply_spec(gspec, mid2)
                            ops.append(mid2)
                        mid = None
                        for _n in range(min(kept_n, rng.randint(1, 2))):
                            x = {"op": pre + ".models.readd", "i": m["i"], "keep": False, "which": rng.randrange(8)}
                            apply_spec(gspec, x)
                            ops.append(x)
                    else:
                        for _try in range(8):
                            back = self._gen_mutator(rng, gspec, pre + ".models.set", nprov)
                            if back and back["models"]:
                                break
                    for x in (mid, back):
                        if x:
                            x["i"] = m["i"]
                            if x["op"] == "b.models.set":
                                # (models generated for the right beam: element / composition of beam m["i"])
                                bs_ = gspec["beams"][m["i"] % len(gspec["beams"])]
                                x["models"] = [gen_beam_model(rng, gspec["plasmas"][bs_["plasma"]]["composition"], bs_["element"])
                                               for _ in range(rng.randint(1, 3))]
                            apply_spec(gspec, x)
                            ops.append(x)
                if m and m["op"] == "b.attenuator" and m.get("keep") and rng.random() < 0.6:
                    # a1, a2, a1: the replaced attenuator comes back, then it alone is changed
                    ops.append(self._gen_observe(rng, spec))
                    for x in ({"op": "b.att.restore", "i": m["i"], "keep": rng.random() < 0.3, "which": 0},
                              {"op": rng.choice(["b.att.clamp_sigma", "b.att.clamp_sigma", "b.att.step"]), "i": m["i"], "keep": False,
                               "value": rng.choice([1.5, 6.0]) }):
                        if x["op"] == "b.att.step":
                            x["value"] = rng.choice([0.02, 0.15])
                        apply_spec(gspec, x)
                        ops.append(x)
                    ops.append(self._gen_observe(rng, spec))
                if m and m["op"] == "b.transform" and gspec["beams"] and rng.random() < 0.4:
                    # co-moving: the plasma is shifted on its own and observed, then the beam follows by the same shift
                    # (same relative placement as before, reached in two steps)
                    bi = m["i"] % len(gspec["beams"])
                    pi_ = gspec["beams"][bi]["plasma"]
                    if gspec["beams"][bi]["parent"] == gspec["plasmas"][pi_]["parent"] == "world":
                        d = [round(rng.uniform(-0.3, 0.3), 3) for _ in range(3)]
                        ops.append({"op": "observe", "channel": "beam.density", "which": bi, "twice": False})
                        tp = copy.deepcopy(gspec["plasmas"][pi_]["transform"])
                        tp["t"] = [a_ + b_ for a_, b_ in zip(tp["t"], d)]
                        x = {"op": "p.transform", "i": pi_, "keep": False, "t": tp}
                        apply_spec(gspec, x)
                        ops.append(x)
                        ops.append({"op": "observe", "channel": rng.choice(["beam.density", "att.density", "ray"]), "which": bi, "twice": False})
                        tb = copy.deepcopy(gspec["beams"][bi]["transform"])
                        tb["t"] = [a_ + b_ for a_, b_ in zip(tb["t"], d)]
                        x = {"op": "b.transform", "i": bi, "keep": False, "t": tb}
                        apply_spec(gspec, x)
                        ops.append(x)
                        ops.append({"op": "observe", "channel": "beam.density", "which": bi, "twice": False})
                if m and m["op"].endswith(".recreate") and rng.random() < 0.5:
                    # the successor node is observed at once, then something upstream changes: it must have been subscribed
                    ops.append(self._gen_observe(rng, spec))
                    up = self._gen_mutator(rng, gspec, rng.choice(["p.transform", "p.transform", "frame.transform", "p.comp.add", "p.bfield"]), nprov)
                    if up:
                        apply_spec(gspec, up)
                        ops.append(up)
                    ops.append(self._gen_observe(rng, spec))
                if m and m["op"] in ("p.unset", "l.unset") and rng.random() < 0.8:
                    # something happens while the prerequisite is missing, then it comes back
                    ops.append(self._gen_observe(rng, spec))
                    if m["op"] == "p.unset":
                        mid = self._gen_mutator(rng, gspec, rng.choice(["p.models.add", "p.models.set", "p.integrator", "p.bfield"]), nprov)
                        mid["i"] = m["i"]
                        back = self._gen_mutator(rng, gspec, "p.atomic_data" if m["what"] == "atomic_data" else "p.geometry", nprov)
                        back["i"] = m["i"]
                    else:
                        mid = self._gen_mutator(rng, gspec, rng.choice(["l.models", "l.importance", "l.profile.set"]), nprov)
                        back = self._gen_mutator(rng, gspec, "l.spectrum", nprov)
                    for x in (mid, back):
                        if x:
                            apply_spec(gspec, x)
                            ops.append(x)
            elif u < 0.80:
                ops.append(self._gen_observe(rng, spec))
            elif u < 0.86:
                ops.append({"op": "check"})
            elif u < 0.93:
                ops.append({"op": "gc"})
            elif fault_mode == "interrupt":
                if PY_PROFILES[0] > 0 and rng.random() < 0.5:
                    ops.append({"op": "fault.arm", "seam": "profile", "after": rng.choice([0, 1, 7, 30, 120, 400]),
                                "kind": rng.choice(["error", "interrupt"])})
                else:
                    ops.append({"op": "fault.arm", "after": rng.choice([0, 0, 1, 2, 3, 5, 8]), "kind": rng.choice(["error", "interrupt"])})
            elif fault_mode == "persistent":
                ops.append({"op": "provider.swap", "which": rng.randrange(4)})
            else:
                ops.append(self._gen_observe(rng, spec))
        return {"config": cfg, "ops": [o for o in ops if o]}

    def _gen_missing(self, rng):
        name = rng.choice(["impact_excitation_pec", "recombination_pec", "thermal_cx_pec", "beam_cx_pec", "beam_stopping_rate",
                           "beam_population_rate", "beam_emission_pec", "wavelength", "line_radiated_power_rate",
                           "zeeman_structure", "zeeman_triplet_parameters", "stark_model_coefficients"])
        el = rng.choice(["D", "He", "C", "Ne"])
        return [name, el] if name not in ("wavelength",) else [name, el]

    def _kinds(self, spec):
        k = ["p.bfield", "p.electron", "p.comp.add", "p.comp.set", "p.comp.set.bad", "p.comp.clear", "p.geometry", "p.geomtransform", "p.integrator",
             "p.models.set", "p.models.add", "p.models.clear", "p.models.readd", "p.models.set.bad", "p.models.permute", "p.model.attr", "p.model.kw.mutate", "p.reassign", "p.caller.mutate", "p.unset",
             "p.atomic_data", "p.transform", "p.parent",
             "frame.transform", "p.recreate", "p.reject"]
        if spec["beams"] or spec.get("laser"):
            k += ["hook.add", "hook.add"]
        if spec["beams"]:
            k += ["b.set", "b.set", "b.element", "b.atomic_data", "b.plasma", "b.attenuator", "b.att.reassign", "b.att.restore", "b.att.step", "b.att.clamp_sigma",
                  "b.models.set", "b.models.add", "b.models.clear", "b.models.readd", "b.models.set.bad", "b.models.permute", "b.reassign", "b.caller.mutate", "b.model.line", "b.model.kw.mutate", "b.integrator", "b.transform", "b.parent",
                  "b.recreate", "b.reject", "fa.make", "fa.step", "fa.step", "fa.clamp"]
        if spec.get("laser"):
            k += ["l.profile.set", "l.profile.set", "l.profile.polarize", "l.profile", "l.spectrum", "l.spectrum.set", "l.plasma",
                  "l.importance", "l.integrator", "l.models", "l.transform", "l.parent", "l.recreate", "l.reassign", "l.unset", "l.reject"]
        return k

    def _gen_mutator(self, rng, spec, kind, nprov):
        npl, nb = len(spec["plasmas"]), len(spec["beams"])
        pi = rng.randrange(npl)
        comp = spec["plasmas"][pi]["composition"]
        if kind == "p.comp.clear" and rng.random() < 0.7:
            kind = "p.comp.set"             # an empty composition makes every later observation raise: keep it rare
        op = {"op": kind, "i": pi, "keep": rng.random() < 0.4}
        if kind.endswith(".recreate"):
            op["drop_first"] = rng.random() < 0.5
        if kind == "p.bfield":
            op["v"] = [round(c * rng.uniform(1, 4), 3) for c in gen_unit(rng)]
        elif kind == "p.electron":
            op["dist"] = gen_dist(rng, 5.4858e-4, 5e19, 200.0)
        elif kind == "p.comp.add":
            el, ch = rng.choice(SPECIES_POOL[:8])
            op["species"] = gen_species(rng, el, ch)
        elif kind == "p.comp.set":
            newc = gen_composition(rng)
            # usually keep the species the attached models need, so that observations keep carrying a signal
            have = {(x["el"], x["ch"]) for x in newc}
            lines = [m["line"] for m in spec["plasmas"][pi]["models"] if "line" in m]
            for b in spec["beams"]:
                if b["plasma"] == pi:
                    lines += [m["line"] for m in b["models"] if m["cls"] == "BeamCXLine"]
            for ln in lines:
                for ch in (ln["ch"], ln["ch"] + 1):
                    if (ln["el"], ch) not in have and ch <= {"H": 1, "D": 1, "He": 2, "C": 6, "Ne": 10}[ln["el"]] and rng.random() < 0.8 and len(newc) < 7:
                        newc.append(gen_species(rng, ln["el"], ch))
                        have.add((ln["el"], ch))
            op["species"] = newc
        elif kind == "p.comp.set.bad":
            op["species"] = gen_composition(rng)
            op["junk_at"] = rng.randrange(len(op["species"]) + 1)
        elif kind == "p.geometry":
            op["geometry"] = gen_geometry(rng)
        elif kind == "p.geomtransform":
            op["t"] = gen_transform(rng, 0.1) if rng.random() < 0.8 else None
        elif kind == "p.integrator":
            op["step"] = rng.choice([0.02, 0.03, 0.05, 0.07])
            op["inplace"] = rng.random() < 0.5
        elif kind == "p.models.set":
            op["models"] = [gen_plasma_model(rng, comp) for _ in range(rng.randint(0, 3))]
        elif kind == "p.models.add":
            op["model"] = gen_plasma_model(rng, comp)
        elif kind == "p.models.readd":
            op["which"] = rng.randrange(8)
        elif kind == "p.models.permute":
            op["order"] = [rng.randrange(4) for _ in range(rng.randint(1, 4))]
        elif kind == "p.model.attr":
            op["which"] = rng.randrange(4)
            if rng.random() < 0.6:
                op["attr"], op["value"] = "gaunt", rng.choice([None, None, round(rng.uniform(0.7, 1.6), 3)])
            else:
                op["attr"], op["value"] = "quad", [rng.choice([1e-5, 1e-3]), rng.choice([50, 12]), rng.choice([1, 3])]
        elif kind == "p.model.kw.mutate":
            op["which"] = rng.randrange(4)
        elif kind == "p.models.set.bad":
            op["models"] = [gen_plasma_model(rng, comp) for _ in range(rng.randint(1, 3))]
            op["junk_at"] = rng.randrange(4)
        elif kind == "p.reassign":
            op["what"] = rng.choice(["atomic_data", "geometry", "integrator", "electron_distribution", "b_field", "geometry_transform", "species"])
        elif kind == "p.caller.mutate":
            op["what"] = rng.choice(["models", "species"])
        elif kind == "p.unset":
            op["what"] = rng.choice(["atomic_data", "geometry"])
        elif kind in ("p.atomic_data",):
            op["prov"] = rng.randrange(nprov)
        elif kind in ("p.transform",):
            op["t"] = gen_transform(rng, 0.25)
        elif kind == "p.parent":
            op["to"] = rng.choice(["frame", "world", "frame", "world", "frame", "world", "none"])
        elif kind == "frame.transform":
            names = sorted(spec["frames"])
            op["name"] = rng.choice(names)
            op["t"] = gen_transform(rng, 0.15)
        elif kind == "fa.make":
            if not nb:
                return None
            op["i"] = rng.randrange(nb)
            op["att"] = gen_attenuator(rng)
        elif kind in ("fa.step", "fa.clamp"):
            if not spec.get("free_atts"):
                return self._gen_mutator(rng, spec, "fa.make", nprov)
            op["which"] = rng.randrange(2)
            op["value"] = rng.choice([0.02, 0.04, 0.08, 0.15]) if kind == "fa.step" else rng.choice([1.5, 2.5, 4.0, 6.0])
        elif kind == "p.reject":
            op["attr"] = "integrator"
        elif kind == "hook.add":
            # a user callback on a public notifier that re-assigns an attribute of another node to its current value
            targets = [["b", j, w] for j in range(nb) for w in BEAM_ATTRS + ["atomic_data", "plasma", "integrator", "element"]]
            ltargets = [["l", 0, w] for w in ("profile", "spectrum", "plasma", "importance")] if spec.get("laser") else []
            if targets and ltargets and rng.random() < 0.3:
                op["src"], op["act"] = "l", rng.choice(targets)         # (Beam.notifier is not public; beams notify nobody upstream)
            elif targets or ltargets:
                op["src"], op["act"] = "p", rng.choice(targets + ltargets)
            else:
                return None
        elif kind.startswith("l."):
            ls = spec.get("laser")
            if not ls:
                return None
            if kind == "l.profile.set":
                attrs = [a for a in ls["profile"]["spec"] if a != "polarization"]
                a = rng.choice(attrs)
                sib = {"stddev_x": "stddev_y", "stddev_y": "stddev_x"}.get(a)
                if sib in attrs and rng.random() < 0.5:
                    op["attr"], op["value"] = a, ls["profile"]["spec"][sib]      # an elliptical profile made circular
                    return op
                fresh = gen_laser_profile(rng)
                while a not in fresh["spec"]:
                    fresh = gen_laser_profile(rng)
                op["attr"], op["value"] = a, fresh["spec"][a]
            elif kind == "l.profile.polarize":
                op["v"] = gen_unit(rng)
            elif kind == "l.profile":
                op["profile"] = gen_laser_profile(rng)
            elif kind == "l.spectrum":
                op["spectrum"] = gen_laser_spectrum(rng)
            elif kind == "l.spectrum.set":
                if not ls["spectrum"]:
                    return None
                a = rng.choice([x for x in ls["spectrum"]["spec"]])
                fresh = gen_laser_spectrum(rng)
                while a not in fresh["spec"]:
                    fresh = gen_laser_spectrum(rng)
                op["attr"], op["value"] = a, fresh["spec"][a]
            elif kind == "l.plasma":
                op["to"] = rng.randrange(npl)
            elif kind == "l.importance":
                op["value"] = rng.choice([0.5, 1.0, 2.0, 4.0])
            elif kind == "l.integrator":
                op["step"] = rng.choice([0.02, 0.03, 0.05, 0.07])
                op["inplace"] = rng.random() < 0.5
            elif kind == "l.models":
                op["n"] = rng.choice([0, 1, 1, 2])
            elif kind == "l.transform":
                op["t"] = gen_transform(rng, toward_origin=True, dist=rng.uniform(1.1, 1.7))
            elif kind == "l.parent":
                op["to"] = rng.choice(["frame", "world", "frame", "world", "none"])
            elif kind == "l.reassign":
                op["what"] = rng.choice(["profile", "spectrum", "plasma"])
            elif kind == "l.reject":
                op["attr"], op["value"] = rng.choice([["importance", -1.0], ["importance", -0.5], ["integrator", None]])
        elif kind.startswith("b."):
            if not nb:
                return None
            bi = rng.randrange(nb)
            op["i"] = bi
            bs = spec["beams"][bi]
            bcomp = spec["plasmas"][bs["plasma"]]["composition"]
            if kind == "b.set":
                op["attr"] = rng.choice(BEAM_ATTRS)
                op["value"] = gen_beam_value(rng, op["attr"])
            elif kind == "b.reject":
                op["attr"] = rng.choice(BEAM_ATTRS + ["integrator"])
                op["value"] = -1.0 if op["attr"] != "integrator" else None
            elif kind == "b.element":
                op["el"] = rng.choice(["D", "H"])
            elif kind == "b.atomic_data":
                op["prov"] = rng.randrange(nprov)
            elif kind == "b.plasma":
                op["to"] = rng.randrange(npl)
            elif kind == "b.attenuator":
                op["att"] = gen_attenuator(rng)
            elif kind == "b.att.restore":
                op["which"] = rng.randrange(4)
            elif kind == "b.att.step":
                op["value"] = rng.choice([0.02, 0.04, 0.08, 0.15])
            elif kind == "b.att.clamp_sigma":
                op["value"] = rng.choice([1.5, 2.5, 4.0, 6.0])
            elif kind == "b.models.set":
                op["models"] = [gen_beam_model(rng, bcomp, bs["element"]) for _ in range(rng.randint(0, 3))]
            elif kind == "b.models.add":
                op["model"] = gen_beam_model(rng, bcomp, bs["element"])
            elif kind == "b.models.readd":
                op["which"] = rng.randrange(8)
            elif kind == "b.models.permute":
                op["order"] = [rng.randrange(4) for _ in range(rng.randint(1, 4))]
            elif kind == "b.models.set.bad":
                op["models"] = [gen_beam_model(rng, bcomp, bs["element"]) for _ in range(rng.randint(1, 3))]
                op["junk_at"] = rng.randrange(4)
            elif kind == "b.reassign":
                op["what"] = rng.choice(["atomic_data", "plasma", "integrator", "element"])
            elif kind == "b.model.kw.mutate":
                op["which"] = rng.randrange(4)
            elif kind == "b.model.line":
                op["which"] = rng.randrange(4)
                op["bel"] = rng.choice(["D", "H"])
                op["line"] = gen_line(rng, [s for s in bcomp if s["ch"] > 0] or bcomp)
            elif kind == "b.integrator":
                op["step"] = rng.choice([0.02, 0.03, 0.05, 0.07])
                op["inplace"] = rng.random() < 0.5
            elif kind == "b.transform":
                op["t"] = gen_transform(rng, toward_origin=True, dist=rng.uniform(1.1, 1.7))
            elif kind == "b.parent":
                op["to"] = rng.choice(["frame", "world", "frame", "world", "frame", "world", "none", "plasma0", "plasma0"])
        return op

    def _gen_observe(self, rng, spec):
        chans = ["ray", "ray", "ray", "plasma.fields"]
        if spec["beams"]:
            chans += ["beam.density", "beam.density", "beam.direction", "att.density", "ray"]
        if spec.get("laser"):
            chans += ["laser.materials", "ray"]
        if any(x.get("rider") for x in spec["plasmas"] + spec["beams"]):
            chans += ["riders", "riders"]
        if spec["beams"]:
            chans += ["fa.density"]
        ch = rng.choice(chans)
        return {"op": "observe", "channel": ch, "which": rng.randrange(6), "twice": rng.random() < 0.25}

    # ------------------------------------------------------------------ observation
    def _observe(self, c, scene, spec, channel, which):
        """Returns ("ok", ndarray) or ("raised", type name).  BaseException included (injected interrupts)."""
        try:
            if channel == "ray":
                r = c.cfg["rays"][which % len(c.cfg["rays"])]
                ray = Ray(origin=Point3D(*r["o"]), direction=Vector3D(*r["d"]), min_wavelength=r["min"], max_wavelength=r["max"],
                          bins=r["bins"])
                return "ok", np.array(ray.trace(scene.world).samples, dtype=float)
            if channel == "plasma.fields":
                p = scene.plasmas[which % len(scene.plasmas)]
                out = []
                for pt in PLASMA_POINTS:
                    out.append(p.ion_density(*pt))
                    out.append(p.z_effective(*pt))
                return "ok", np.array(out, dtype=float)
            if channel == "laser.materials":
                if scene.laser is None:
                    return "ok", np.zeros(0)
                out = []
                for seg in sorted(scene.laser.get_geometry(), key=lambda g: g.transform[2, 3]):
                    m = seg.material
                    is_lm = type(m).__name__ == "LaserMaterial"
                    out += [1.0 if is_lm else 0.0, float(getattr(m, "importance", -1.0)),
                            float(m.integrator.step) if is_lm else -1.0, float(seg.transform[2, 3]), float(seg.height), float(seg.radius),
                            1.0 if seg.parent is scene.laser else 0.0]
                out.append(float(len(scene.laser.children)))
                out.append(-1.0 if scene.rider is None else (1.0 if scene.rider.parent is scene.laser else 0.0))
                return "ok", np.array(out, dtype=float)
            if channel == "fa.density":
                if not scene.free_atts:
                    return "ok", np.zeros(0)
                fa = scene.free_atts[which % len(scene.free_atts)]
                return "ok", np.array([fa.density(*pt) for pt in ATT_POINTS], dtype=float)
            if channel == "riders":
                # every user primitive parented to a plasma / beam node: still a child of its node, and seen by a ray aimed at it
                out = []
                dv = Vector3D(0.36, 0.48, 0.8)
                for key in sorted(scene.riders):
                    sph, node, pos = scene.riders[key]
                    out.append(1.0 if sph.parent is node else 0.0)
                    ctr = Point3D(*pos).transform(node.to_root())
                    ray = Ray(origin=Point3D(ctr.x - 0.4 * dv.x, ctr.y - 0.4 * dv.y, ctr.z - 0.4 * dv.z), direction=dv,
                              min_wavelength=500.0, max_wavelength=600.0, bins=4)
                    out.append(float(np.sum(ray.trace(scene.world).samples)))
                return "ok", np.array(out, dtype=float)
            if not scene.beams:
                return "ok", np.zeros(0)
            b = scene.beams[which % len(scene.beams)]
            if channel == "beam.density":
                return "ok", np.array([b.density(*pt) for pt in BEAM_POINTS], dtype=float)
            if channel == "att.density":
                return "ok", np.array([b.attenuator.density(*pt) for pt in ATT_POINTS], dtype=float)
            if channel == "beam.direction":
                out = []
                for pt in BEAM_POINTS:
                    v = b.direction(*pt)
                    out += [v.x, v.y, v.z]
                return "ok", np.array(out, dtype=float)
            raise HarnessError(channel)
        except HarnessError:
            raise
        except (SimFault, SimInterrupt) as e:
            return "fault", type(e).__name__
        except BaseException as e:
            if isinstance(e, (KeyboardInterrupt, SystemExit, MemoryError)):
                raise
            return "raised", type(e).__name__

    def _compare(self, c, env, channel, which, after):
        """Observe subject and a freshly built twin; they must agree."""
        how, val = self._observe(c, c.scene, c.spec, channel, which)
        if how == "fault":
            c.fault_fired += 1
            return how, val
        if c.pristine is not None:
            h2, v2 = c.pristine.call((c.spec, channel, which))
            env.probe("pristine_twin")
            if h2 == "harness":
                raise HarnessError("pristine twin: " + str(v2))
            if h2 == "crashed":
                raise Violation("crash-in-rebuilt-scene", channel, "%s: the scene rebuilt from scratch in a pristine process died from signal %s" % (after, v2))
            if h2 == "libexc":
                raise Violation("unexpected-exception", channel, "%s: building the scene from scratch raised inside the library: %s" % (after, v2))
        else:
            twin = build_scene(c.spec)
            h2, v2 = self._observe(c, twin, c.spec, channel, which)
        if h2 == "fault":
            raise HarnessError("twin hit an injected fault")
        if how != h2:
            raise Violation("stale-vs-rebuilt", channel, "%s: subject %s %s, scene rebuilt from scratch %s %s" % (
                after, how, val if how != "ok" else "values", h2, v2 if h2 != "ok" else "values"))
        if how == "raised":
            if val != v2:
                raise Violation("stale-vs-rebuilt", channel, "%s: subject raised %s, rebuilt scene raised %s" % (after, val, v2))
            c.nraised += 1
            env.probe("both_raised")
        else:
            ok, why = arrays_close(val, v2, RTOL, 1e-12)
            if not ok:
                raise Violation("stale-vs-rebuilt", channel, "%s: %s" % (after, why))
            if val.size and np.any(val != 0):
                env.stats.inc("nonvacuous." + channel)
            else:
                env.stats.inc("vacuous." + channel)
            env.digest.add_array(val)
        return how, val

    # ------------------------------------------------------------------ lifecycle
    def _twin_job(self, c, request):
        """Runs in a grandchild of the pristine server: build the twin, observe one channel."""
        spec, channel, which = request
        try:
            twin = build_scene(spec)
        except HarnessError:
            raise
        except Exception as e:
            import traceback
            tb = traceback.extract_tb(e.__traceback__)
            inner = tb[-1].filename.replace("\\", "/") if tb else ""
            if "cherab/" in inner and "/verif/" not in inner:
                return "libexc", "%s: %s" % (type(e).__name__, "".join(traceback.format_exception(e))[-1200:])
            raise
        return self._observe(c, twin, spec, channel, which)

    def start(self, cfg, env):
        c = Ctx()
        c.cfg = cfg
        # before anything of this run exists: the server process keeps the image every rebuilt scene starts from
        c.pristine = PristineServer(lambda request: self._twin_job(c, request)) if cfg.get("pristine") else None
        c.spec = copy.deepcopy(cfg["spec"])
        c.scene = build_scene(c.spec, subject=True)
        c.kept = []
        c.kept_pm = []
        c.kept_bm = []
        c.hooks = []
        c.kept_att = []
        c.mut_since = {}
        c.seen_channels = set()
        c.observed = False
        c.mutated_after_obs = False
        c.fault_fired = 0
        c.nraised = 0
        c.last_obs = None
        env.stats.add("fault_modes", cfg["fault_mode"])
        for pv in c.spec["providers"]:
            for m in pv["missing"]:
                env.fault_armed("missing-data")
        return c

    def _touch(self, c):
        if c.observed:
            c.mutated_after_obs = True

    def _dispose(self, c, op, obj):
        if op.get("keep") and obj is not None:
            c.kept.append(obj)

    def step(self, c, op, env):
        n0 = len(c.scene.fired)
        try:
            return self._step(c, op, env)
        finally:
            for _k, kind, name in c.scene.fired[n0:]:
                env.fault_fired({"missing": "missing-data", "error": "call-k-error", "interrupt": "call-k-interrupt"}[kind])
                env.stats.add("fault_sites", "%s@%s" % (kind, name))

    def _step(self, c, op, env):
        k = op["op"]
        s = c.scene
        sp = c.spec
        out = "ok"
        if k == "observe":
            ch, which = op["channel"], op["which"]
            how, val = self._compare(c, env, ch, which, "observe")
            for mk in c.mut_since.pop(ch, []):
                env.stats.add("mutator_then_channel", "%s>%s>%s" % (mk, ch, "warm" if ch in c.seen_channels else "cold"))
            c.seen_channels.add(ch)
            if op.get("twice") or how == "fault":
                # an observation repeated immediately (after a raise / an interruption) must behave like the first
                h2, v2 = self._compare(c, env, ch, which, "repeated observe")
                env.probe("observation_repeated")
                if how in ("raised", "fault"):
                    env.probe("observation_repeated_after_raise")
            if c.mutated_after_obs:
                env.nontrivial = True
            c.observed = True
            env.event(k, how, ch)
            self._state(c, env, k + ":" + ch)
            return how
        if k == "check":
            self._full_check(c, env, "check")
            c.observed = True
            env.event(k, "ok")
            self._state(c, env, k)
            return "ok"
        if k == "gc":
            gc.collect()
            env.event(k, "ok")
            self._state(c, env, k)
            return "ok"
        if k == "fault.arm":
            if c.cfg["fault_mode"] != "interrupt":
                return "noop"
            if op.get("seam") == "profile":
                s.pfault_at[s.pcounter[0] + int(op["after"])] = op["kind"]
            else:
                s.fault_at[s.counter[0] + int(op["after"])] = op["kind"]
            env.fault_armed("call-k-" + op["kind"])
            env.event(k, "armed")
            return "armed"
        if k == "provider.swap":
            # give every emitter a complete provider through the public setters (bounded liveness: next observation healthy)
            if c.cfg["fault_mode"] != "persistent":
                return "noop"
            for pv in sp["providers"]:
                pv["missing"] = []
            for prov in s.providers:
                prov.missing = []
            env.probe("missing_data_repaired")
            env.event(k, "ok")
            self._touch(c)
            return "ok"
        out = self._mutate(c, op, env)
        if out == "ok":
            apply_spec(c.spec, op)
        elif out == "accepted":
            apply_spec(c.spec, dict(op, op="b.set"))
        if out != "noop":
            self._touch(c)
            for ch in ("ray", "plasma.fields", "beam.density", "beam.direction", "att.density", "laser.materials", "riders", "fa.density"):
                lst = c.mut_since.setdefault(ch, [])
                if k not in lst and len(lst) < 6:
                    lst.append(k)
        env.event(k, out.split(":")[0], op.get("attr", ""))
        self._state(c, env, k + ":" + str(op.get("attr", "")))
        return out

    def _state(self, c, env, opk):
        sp = c.spec
        shape = "p%d|b%d|m%d|bm%d|l%s" % (len(sp["plasmas"]), len(sp["beams"]), min(sum(len(p["models"]) for p in sp["plasmas"]), 3),
                                          min(sum(len(b["models"]) for b in sp["beams"]), 3),
                                          "-" if not sp.get("laser") else str(sp["laser"]["models"]))
        env.state("%s|o%d|s%d|k%d|f%d" % (shape, c.observed, c.mutated_after_obs, min(len(c.kept), 2), min(c.fault_fired, 2)), opk)

    def _full_check(self, c, env, after):
        for which in range(len(c.cfg["rays"])):
            self._compare(c, env, "ray", which, after)
        for which in range(len(c.spec["plasmas"])):
            self._compare(c, env, "plasma.fields", which, after)
        for which in range(len(c.spec["beams"])):
            for ch in ("beam.density", "beam.direction", "att.density"):
                self._compare(c, env, ch, which, after)
        if c.spec.get("laser"):
            self._compare(c, env, "laser.materials", 0, after)
        if any(x.get("rider") for x in c.spec["plasmas"] + c.spec["beams"]):
            self._compare(c, env, "riders", 0, after)
        for which in range(len(c.spec.get("free_atts", []))):
            self._compare(c, env, "fa.density", which, after)
        if c.mutated_after_obs:
            env.nontrivial = True

    def finish(self, c, env):
        # disarm transient faults: the final configuration is healthy
        c.scene.fault_at.clear()
        c.scene.pfault_at.clear()
        self._full_check(c, env, "finish")
        if c.pristine is not None:
            c.pristine.close()
        for prov in c.scene.providers:           # reach: which provider accessors the subject's history exercised
            for name in ("zeeman_structure", "zeeman_triplet_parameters", "stark_model_coefficients"):
                if prov.by_name.get(name):
                    env.probe("provider_call." + name, prov.by_name[name])

    # ------------------------------------------------------------------ mutators (public API + specification in lock-step)
    def _mutate(self, c, op, env):
        k = op["op"]
        s, sp = c.scene, c.spec
        _CURRENT[0] = s
        if k == "hook.add":
            return self._add_hook(c, op, env)
        if k.startswith("fa."):
            fas = sp.get("free_atts", [])
            if k == "fa.make":
                if not s.beams or len(fas) >= 2:
                    return "noop"
                i = op["i"] % len(s.beams)
                fa = {"beam": i, "plasma": sp["beams"][i]["plasma"], "provider": sp["beams"][i]["provider"], "att": dict(op["att"])}
                s.free_atts.append(build_free_att(s, fa))
                env.probe("free_attenuator_built")
                return "ok"
            if not fas:
                return "noop"
            fa = s.free_atts[op["which"] % len(fas)]
            if k == "fa.step":
                fa.step = op["value"]
            else:
                fa.clamp_sigma = op["value"]
            env.probe("free_attenuator_changed")
            return "ok"
        if k.startswith("p.") or k == "frame.transform":
            if k == "frame.transform":
                if op["name"] not in s.frames:
                    return "noop"
                s.frames[op["name"]].transform = mk_transform(op["t"])
                return "ok"
            i = op["i"] % len(s.plasmas)
            p, ps = s.plasmas[i], sp["plasmas"][i]
            incomplete = ps["geometry"] is None or ps["provider"] is None or k == "p.unset"
            if incomplete and k in ("p.models.set", "p.models.add", "p.models.readd", "p.models.permute", "p.integrator", "p.geometry", "p.geomtransform",
                                    "p.atomic_data", "p.unset", "p.caller.mutate", "p.reassign", "p.recreate"):
                try:
                    return self._mutate_plasma(c, op, env, s, sp, i, p, ps, k)
                except ValueError:
                    # documented refusal: "the plasma must have a defined geometry / an atomic data source to be used with an
                    # emission model" -- raised after the new value was stored; the configuration is the one requested
                    env.probe("configure_refused_prerequisite_missing")
                    return "ok" if k not in ("p.caller.mutate", "p.reassign") else "raised"
            return self._mutate_plasma(c, op, env, s, sp, i, p, ps, k)
        if k.startswith("l."):
            return self._mutate_laser(c, op, env)
        return self._mutate_beam(c, op, env)

    def _add_hook(self, c, op, env):
        """Registers a user callback (documented use of the public notifiers) that re-assigns one attribute of another node to
        the value it already has.  The final configuration is untouched, so the scene rebuilt from scratch needs no callback."""
        s = c.scene
        if op["src"] == "p":
            src = s.plasmas[op["i"] % len(s.plasmas)]
        elif s.laser is not None:
            src = s.laser
        else:
            return "noop"
        kind, j, what = op["act"]
        if (kind == "b" and not s.beams) or (kind == "l" and s.laser is None):
            return "noop"
        depth = [0]

        def hook():
            if depth[0]:
                return
            depth[0] += 1
            try:
                if kind == "b":
                    tgt = s.beams[j % len(s.beams)]
                    if tgt is not None:
                        setattr(tgt, what, getattr(tgt, what))
                elif s.laser is not None:
                    attr = {"profile": "laser_profile", "spectrum": "laser_spectrum"}.get(what, what)
                    v = getattr(s.laser, attr)
                    if v is not None:
                        setattr(s.laser, attr, v)
                env.probe("user_hook_fired")
            except Exception:
                env.probe("user_hook_raised")
            finally:
                depth[0] -= 1

        src.notifier.add(hook)
        c.hooks.append(hook)            # the notifier only holds a weak reference
        env.probe("user_hook_registered")
        return "ok"

    def _refuse_none_integrator(self, env, node, label):
        before = node.integrator
        env.fault_armed("reject")
        try:
            node.integrator = None
        except (TypeError, ValueError):
            env.fault_fired("reject")
            if node.integrator is not before:
                raise Violation("reject-changed-state", label + ".integrator", "%s.integrator = None was refused but the node now reports %r" % (
                    label, node.integrator))
            return "raised:TypeError"
        raise Violation("invalid-accepted", label + ".integrator", "%s.integrator = None was accepted: no scene can be built or observed with it" % label)

    def _mutate_plasma(self, c, op, env, s, sp, i, p, ps, k):
        if True:
            if k == "p.reject":
                return self._refuse_none_integrator(env, p, "plasma")
            if k == "p.bfield":
                p.b_field = Vector3D(*op["v"])
            elif k == "p.electron":
                self._dispose(c, op, p.electron_distribution)
                p.electron_distribution = mk_dist(op["dist"])
            elif k == "p.comp.add":
                sx = op["species"]
                try:
                    old = p.composition.get(EL[sx["el"]], sx["ch"])
                    self._dispose(c, op, old)
                except ValueError:
                    pass
                p.composition.add(mk_species(sx))
            elif k == "p.comp.set":
                if op.get("keep"):
                    c.kept.append(list(p.composition))
                p.composition = [mk_species(x) for x in op["species"]]
            elif k == "p.comp.set.bad":
                before = list(p.composition)
                bspecs = list(ps["composition"])
                objs = [mk_species(x) for x in op["species"]]
                lst = list(objs)
                lst.insert(op["junk_at"] % (len(lst) + 1), "not-a-species")
                env.fault_armed("reject")
                try:
                    p.composition = lst
                except Exception:
                    env.fault_fired("reject")
                else:
                    raise Violation("invalid-accepted", "plasma.composition", "a composition containing a str was accepted")
                # no atomicity assumed: the configuration is whatever the composition now reports
                comp = []
                for o in p.composition:
                    for cand, spc in list(zip(before, bspecs)) + list(zip(objs, op["species"])):
                        if o is cand:
                            comp.append(spc)
                            break
                    else:
                        raise Violation("foreign-species", "plasma.composition", "the composition holds a species nobody gave it")
                ps["composition"] = comp
                return "raised"
            elif k == "p.comp.clear":
                p.composition.clear()
            elif k == "p.geometry":
                self._dispose(c, op, p.geometry)
                p.geometry = mk_geometry(op["geometry"])
            elif k == "p.geomtransform":
                p.geometry_transform = mk_transform(op["t"]) if op["t"] is not None else None
            elif k == "p.integrator":
                if op.get("inplace"):
                    p.integrator.step = op["step"]
                else:
                    self._dispose(c, op, p.integrator)
                    p.integrator = mk_integrator(op["step"])
            elif k == "p.models.set":
                if op.get("keep"):
                    c.kept_pm.extend(list(p.models))
                p.models = [mk_plasma_model(m) for m in op["models"]]
            elif k == "p.models.set.bad":
                lst = [mk_plasma_model(m) for m in op["models"]]
                lst.insert(op["junk_at"] % (len(lst) + 1), "not-a-model")
                env.fault_armed("reject")
                try:
                    p.models = lst
                except Exception:
                    env.fault_fired("reject")
                else:
                    raise Violation("invalid-accepted", "plasma.models", "a model list containing a str was accepted")
                if len(list(p.models)) != len(ps["models"]):
                    raise Violation("reject-changed-state", "plasma.models", "a refused model list changed the attached models: %d now, %d before" % (
                        len(list(p.models)), len(ps["models"])))
                return "raised"
            elif k == "p.reassign":
                w = op["what"]
                if w == "species":
                    sp_objs = list(p.composition)
                    if not sp_objs:
                        return "noop"
                    p.composition.add(sp_objs[0])              # the very same Species object again
                elif w == "geometry_transform":
                    p.geometry_transform = p.geometry_transform
                else:
                    setattr(p, w, getattr(p, w))
                env.probe("same_object_reassigned")
                return "raised"                                  # (no specification change; not "ok" so apply_spec is skipped)
            elif k == "p.caller.mutate":
                # the caller keeps the list it handed over and goes on editing it: the plasma must not follow
                if op["what"] == "models":
                    lst = [mk_plasma_model(m) for m in ps["models"]]
                    p.models = lst
                    lst.append(mk_plasma_model({"cls": "Bremsstrahlung"}))
                    del lst[0]
                else:
                    lst = [mk_species(x) for x in ps["composition"]]
                    p.composition = lst
                    lst.append(mk_species(gen_species(__import__("random").Random(7), "Ne", 10)))
                    del lst[0]
                env.probe("caller_container_mutated")
                return "raised"
            elif k == "p.model.attr":
                idx = [j for j, m in enumerate(ps["models"]) if m["cls"] == "Bremsstrahlung"]
                if not idx:
                    return "noop"
                model = list(p.models)[idx[op["which"] % len(idx)]]
                if op["attr"] == "gaunt":
                    model.gaunt_factor = SimGaunt(op["value"]) if op["value"] is not None else None
                else:
                    q = op["value"]
                    model.integrator = GaussianQuadrature(relative_tolerance=q[0], max_order=q[1], min_order=q[2])
                env.probe("model_attribute_changed_in_place")
            elif k == "p.model.kw.mutate":
                cur = list(p.models)
                if not cur or not caller_edits_lineshape_containers(cur[op["which"] % len(cur)]):
                    return "noop"
                p.b_field = p.b_field                      # any notification: the models drop and rebuild their line shapes
                env.probe("caller_lineshape_containers_edited")
                return "raised"
            elif k == "p.models.permute":
                cur = list(p.models)
                if not cur:
                    return "noop"
                idx = []
                for j in op["order"]:
                    j = j % len(cur)
                    if j not in idx:
                        idx.append(j)
                p.models = [cur[j] for j in idx]          # the same instances, re-ordered and possibly fewer
                env.probe("same_model_instances_reset")
            elif k == "p.models.readd":
                if not c.kept_pm or len(ps["models"]) >= 4:
                    return "noop"
                p.models.add(c.kept_pm.pop(op["which"] % len(c.kept_pm)))
                env.probe("model_instance_moved_between_lists")
            elif k == "p.models.add":
                if len(ps["models"]) >= 4:
                    return "noop"
                p.models.add(mk_plasma_model(op["model"]))
            elif k == "p.models.clear":
                if op.get("keep"):
                    c.kept_pm.extend(list(p.models))
                p.models.clear()
            elif k == "p.atomic_data":
                p.atomic_data = s.providers[op["prov"] % len(s.providers)]
            elif k == "p.unset":
                env.probe("prerequisite_unset")
                if op["what"] == "atomic_data":
                    p.atomic_data = None
                else:
                    p.geometry = None
            elif k == "p.transform":
                p.transform = mk_transform(op["t"])
            elif k == "p.parent":
                p.parent = parent_of(s, "p", i, op["to"])
            elif k == "p.recreate":
                s.riders.pop(("p", i), None)
                s.free_atts = [fa for fa, f in zip(s.free_atts, sp.get("free_atts", [])) if f["plasma"] != i]
                old = p
                old.parent = None
                if op.get("drop_first") and not op.get("keep"):
                    s.plasmas[i] = None
                    del old, p
                    gc.collect()
                    old = None
                new = build_plasma(s, sp, i)
                s.plasmas[i] = new
                for j, bs in enumerate(sp["beams"]):
                    if bs["plasma"] == i:
                        s.beams[j].plasma = new
                    if bs["parent"] == "plasma0" and i == 0:
                        s.beams[j].parent = new          # the user moves what rode on the old node over to the new one
                if s.laser is not None and sp["laser"]["plasma"] == i:
                    s.laser.plasma = new
                self._dispose(c, op, old)
                old = p = None
                env.probe("plasma_node_recreated")
            else:
                return "noop"
            return "ok"

    def _mutate_beam(self, c, op, env):
        k = op["op"]
        s, sp = c.scene, c.spec
        if not s.beams:
            return "noop"
        i = op["i"] % len(s.beams)
        b, bs = s.beams[i], sp["beams"][i]
        if k == "b.reject" and op["attr"] == "integrator":
            return self._refuse_none_integrator(env, b, "beam")
        if k == "b.set" or k == "b.reject":
            try:
                setattr(b, op["attr"], op["value"])
            except ValueError:
                if k == "b.reject":
                    env.fault_armed("reject")
                    env.fault_fired("reject")
                    if getattr(b, op["attr"]) != bs[op["attr"]]:
                        raise Violation("reject-changed-state", "beam." + op["attr"], "refused value altered the attribute")
                    return "raised:ValueError"
                raise Violation("valid-setter-raised", "beam." + op["attr"], "beam.%s = %r raised ValueError" % (op["attr"], op["value"]))
            if k == "b.reject":
                return "accepted"
        elif k == "b.element":
            b.element = EL[op["el"]]
        elif k == "b.atomic_data":
            b.atomic_data = s.providers[op["prov"] % len(s.providers)]
        elif k == "b.plasma":
            j = op["to"] % len(s.plasmas)
            b.plasma = s.plasmas[j]
            env.probe("beam_switched_plasma")
        elif k == "b.attenuator":
            self._dispose(c, op, b.attenuator)
            if op.get("keep"):
                c.kept_att.append([i, b.attenuator])
            b.attenuator = mk_attenuator(op["att"])
        elif k == "b.att.restore":
            # an attenuator this beam had before (replaced, kept by the user) is installed again: a1, a2, a1
            cand = [n for n, (bi, _o) in enumerate(c.kept_att) if bi == i]
            if not cand:
                return "noop"
            _bi, old = c.kept_att.pop(cand[op["which"] % len(cand)])
            if op.get("keep"):
                c.kept_att.append([i, b.attenuator])
            b.attenuator = old
            env.probe("previous_attenuator_restored")
        elif k == "b.att.reassign":
            b.attenuator = b.attenuator
            env.probe("same_object_reassigned")
        elif k == "b.att.step":
            b.attenuator.step = op["value"]
        elif k == "b.att.clamp_sigma":
            b.attenuator.clamp_sigma = op["value"]
        elif k == "b.models.set":
            if op.get("keep"):
                c.kept_bm.extend(list(b.models))
            b.models = [mk_beam_model(m) for m in op["models"]]
        elif k == "b.models.set.bad":
            lst = [mk_beam_model(m) for m in op["models"]]
            lst.insert(op["junk_at"] % (len(lst) + 1), "not-a-model")
            env.fault_armed("reject")
            try:
                b.models = lst
            except Exception:
                env.fault_fired("reject")
            else:
                raise Violation("invalid-accepted", "beam.models", "a model list containing a str was accepted")
            if len(list(b.models)) != len(bs["models"]):
                raise Violation("reject-changed-state", "beam.models", "a refused model list changed the attached models")
            return "raised"
        elif k == "b.caller.mutate":
            lst = [mk_beam_model(m) for m in bs["models"]]
            b.models = lst
            lst.append(mk_beam_model({"cls": "BeamEmissionLine", "line": {"el": bs["element"], "ch": 0, "tr": [3, 2]}}))
            if len(lst) > 1:
                del lst[0]
            # an unrelated assignment that rebuilds the beam material: it must be built from the beam's models, not the caller's list
            b.sigma = b.sigma
            env.probe("caller_container_mutated")
            return "raised"
        elif k == "b.reassign":
            w = op["what"]
            setattr(b, w, getattr(b, w))
            env.probe("same_object_reassigned")
            return "raised"
        elif k == "b.model.kw.mutate":
            cur = list(b.models)
            if not cur or not caller_edits_lineshape_containers(cur[op["which"] % len(cur)]):
                return "noop"
            b.sigma = b.sigma
            env.probe("caller_lineshape_containers_edited")
            return "raised"
        elif k == "b.models.permute":
            cur = list(b.models)
            if not cur:
                return "noop"
            idx = []
            for j in op["order"]:
                j = j % len(cur)
                if j not in idx:
                    idx.append(j)
            b.models = [cur[j] for j in idx]
            env.probe("same_model_instances_reset")
        elif k == "b.models.readd":
            if not c.kept_bm or len(bs["models"]) >= 4:
                return "noop"
            b.models.add(c.kept_bm.pop(op["which"] % len(c.kept_bm)))
            env.probe("model_instance_moved_between_lists")
        elif k == "b.models.add":
            if len(bs["models"]) >= 4:
                return "noop"
            b.models.add(mk_beam_model(op["model"]))
        elif k == "b.models.clear":
            if op.get("keep"):
                c.kept_bm.extend(list(b.models))
            b.models.clear()
        elif k == "b.model.line":
            ms = list(b.models)
            idx = [j for j, m in enumerate(bs["models"])]
            if not idx:
                return "noop"
            j = idx[op["which"] % len(idx)]
            if bs["models"][j]["cls"] == "BeamCXLine":
                ms[j].line = mk_line(op["line"])
            else:
                ms[j].line = mk_line({"el": op.get("bel", "D"), "ch": 0, "tr": [3, 2]})
        elif k == "b.integrator":
            if op.get("inplace"):
                b.integrator.step = op["step"]
            else:
                self._dispose(c, op, b.integrator)
                b.integrator = mk_integrator(op["step"])
        elif k == "b.transform":
            b.transform = mk_transform(op["t"])
        elif k == "b.parent":
            b.parent = parent_of(s, "b", i, op["to"])
            if op["to"] == "plasma0":
                env.probe("beam_parented_to_plasma_node")
        elif k == "b.recreate":
            s.riders.pop(("b", i), None)
            s.free_atts = [fa for fa, f in zip(s.free_atts, sp.get("free_atts", [])) if f["beam"] != i]
            old = b
            old.parent = None
            if op.get("drop_first") and not op.get("keep"):
                s.beams[i] = None
                del old, b
                gc.collect()
                old = None
            s.beams[i] = build_beam(s, sp, i)
            self._dispose(c, op, old)
            old = b = None
            env.probe("beam_node_recreated")
        else:
            return "noop"
        return "ok"

    def _mutate_laser(self, c, op, env):
        k = op["op"]
        s, sp = c.scene, c.spec
        l, ls = s.laser, sp.get("laser")
        if l is None or not ls:
            return "noop"
        if k == "l.profile.set":
            if op["attr"] not in ls["profile"]["spec"]:
                return "noop"
            setattr(l.laser_profile, op["attr"], op["value"])
        elif k == "l.profile.polarize":
            l.laser_profile.set_polarization(Vector3D(*op["v"]))
        elif k == "l.profile":
            self._dispose(c, op, l.laser_profile)
            l.laser_profile = laser_construct(op["profile"]["kind"], op["profile"]["spec"])
        elif k == "l.spectrum":
            self._dispose(c, op, l.laser_spectrum)
            l.laser_spectrum = laser_construct(op["spectrum"]["kind"], op["spectrum"]["spec"])
        elif k == "l.unset":
            l.laser_spectrum = None
            env.probe("prerequisite_unset")
        elif k == "l.reject" and op["attr"] == "integrator":
            return self._refuse_none_integrator(env, l, "laser")
        elif k == "l.reject":
            before = getattr(l, op["attr"])
            env.fault_armed("reject")
            try:
                setattr(l, op["attr"], op["value"])
            except ValueError:
                env.fault_fired("reject")
                if getattr(l, op["attr"]) != before:
                    raise Violation("reject-changed-state", "laser." + op["attr"], "laser.%s = %r was refused but the laser now reports %r (was %r)" % (
                        op["attr"], op["value"], getattr(l, op["attr"]), before))
                return "raised"
            # accepted (e.g. no emitting material to validate against): then it is the configuration
            apply_spec(sp, {"op": "l.importance", "value": op["value"]})
            return "raised"
        elif k == "l.spectrum.set":
            if ls["spectrum"] is None or op["attr"] not in ls["spectrum"]["spec"]:
                return "noop"
            try:
                setattr(l.laser_spectrum, op["attr"], op["value"])
            except ValueError:
                return "raised:ValueError"        # min >= max etc.: refused, specification unchanged
        elif k == "l.plasma":
            l.plasma = s.plasmas[op["to"] % len(s.plasmas)]
        elif k == "l.importance":
            l.importance = op["value"]
        elif k == "l.integrator":
            if op.get("inplace"):
                l.integrator.step = op["step"]
            else:
                self._dispose(c, op, l.integrator)
                try:
                    l.integrator = mk_integrator(op["step"])
                except AttributeError:
                    # segments without an emitting material: the value is stored nevertheless (observed, not judged)
                    env.probe("laser_integrator_setter_raised")
        elif k == "l.models":
            if op.get("keep"):
                c.kept.append(list(l.models))
            try:
                l.models = [SeldenMatobaThomsonSpectrum() for _ in range(op["n"])]
            except ValueError:
                if ls["spectrum"] is None:
                    return "raised"      # documented refusal (checked before anything is stored): specification unchanged
                raise
        elif k == "l.transform":
            l.transform = mk_transform(op["t"])
        elif k == "l.parent":
            l.parent = s.world if op["to"] == "world" else (s.frames["fl0"] if op["to"] == "frame" else None)
        elif k == "l.recreate":
            old = l
            old.parent = None
            if op.get("drop_first") and not op.get("keep"):
                s.laser = None
                del old, l
                gc.collect()
                old = None
            s.laser = build_laser(s, sp)
            self._dispose(c, op, old)
            old = l = None
            env.probe("laser_node_recreated")
        elif k == "l.reassign":
            what = op.get("what", "profile")
            if what == "profile":
                l.laser_profile = l.laser_profile
            elif what == "spectrum":
                if ls["spectrum"] is None:
                    return "noop"
                l.laser_spectrum = l.laser_spectrum
            else:
                l.plasma = l.plasma
            env.probe("same_object_reassigned")
        else:
            return "noop"
        return "ok"

    # ------------------------------------------------------------------ shrinking
    def simplify_op(self, op):
        out = []
        if op["op"] == "observe" and op.get("twice"):
            o = dict(op)
            o["twice"] = False
            out.append(o)
        if op.get("keep"):
            o = dict(op)
            o["keep"] = False
            out.append(o)
        if op["op"] == "check":
            out.append({"op": "observe", "channel": "ray", "which": 0})
        return out

    def simplify_config(self, cfg):
        out = []
        sp = cfg["spec"]
        if len(sp["beams"]) > 1:
            c = copy.deepcopy(cfg)
            c["spec"]["beams"].pop()
            out.append(c)
        if len(sp["plasmas"]) > 1 and all(b["plasma"] == 0 for b in sp["beams"]):
            c = copy.deepcopy(cfg)
            c["spec"]["plasmas"].pop()
            out.append(c)
        for i, p in enumerate(sp["plasmas"]):
            if len(p["models"]) > 1:
                for j in range(len(p["models"])):
                    c = copy.deepcopy(cfg)
                    del c["spec"]["plasmas"][i]["models"][j]
                    out.append(c)
        for i, b in enumerate(sp["beams"]):
            if len(b["models"]) > 1:
                for j in range(len(b["models"])):
                    c = copy.deepcopy(cfg)
                    del c["spec"]["beams"][i]["models"][j]
                    out.append(c)
        return out
