"""Machine base class and the in-child executor of one case."""

import gc
import hashlib
import traceback

from .core import Digest, Stats, Violation, HarnessError


class Env:
    """Per-run recording context handed to a machine.  No PRNG, no clock."""

    def __init__(self):
        self.digest = Digest()
        self.stats = Stats()
        self.trace = []          # abstract events: (op kind, outcome class, extra)
        self.states = set()      # abstract states (strings)
        self.transitions = set() # (state, op kind) strings
        self.step = -1
        self.nontrivial = False
        self._last_state = "init"

    # --- recording helpers -------------------------------------------------------
    def event(self, kind, outcome, extra=""):
        self.trace.append("%s:%s:%s" % (kind, outcome, extra))

    def state(self, s, opkind):
        s = str(s)
        self.states.add(s)
        self.transitions.add(self._last_state + ">" + opkind)
        self._last_state = s

    def probe(self, name, n=1):
        self.stats.inc("probe." + name, n)

    def fault_armed(self, kind):
        self.stats.inc("fault.armed." + kind)

    def fault_fired(self, kind):
        self.stats.inc("fault.fired." + kind)

    def op_count(self, kind, outcome):
        self.stats.inc("op|%s|%s" % (kind, outcome))

    def interleaving(self):
        return hashlib.sha256("|".join(self.trace).encode()).hexdigest()[:16]


class Machine:
    """One claimed property = one machine.  Subclasses implement the five methods."""

    pid = None                 # "C14"
    title = ""
    per_run_timeout = 60       # seconds of CPU time of the run (or ten times that in wall time) before it counts as hung
    quick_runs = 1000
    thorough_runs = 10000
    quick_deadline = 240       # soft wall deadline (s): stop scheduling new runs
    thorough_deadline = 3000
    components_real = []
    components_stub = []
    assumptions = []
    rule = ""

    def generate(self, rng, tier):
        """Return {"config": {...}, "ops": [...]}: a pure function of rng."""
        raise NotImplementedError

    def start(self, config, env):
        raise NotImplementedError

    def step(self, ctx, op, env):
        """Execute one op; return a short outcome string; raise Violation."""
        raise NotImplementedError

    def finish(self, ctx, env):
        """Final oracle pass."""

    def simplify_op(self, op):
        """Candidate simpler replacements for one op (used by the shrinker)."""
        return []

    def simplify_config(self, config):
        return []


def execute_case(machine, case, journal=None):
    """Run one case in *this* process.  Returns a JSON-able result dict."""
    env = Env()
    gc.disable()
    # every PRNG the system under test may consult is seeded from the run's seed (a replay carries it)
    s64 = int(case.get("seed", 0)) & 0xFFFFFFFFFFFFFFFF
    import random as _random
    _random.seed(s64)
    try:
        import numpy as _np
        _np.random.seed(s64 & 0xFFFFFFFF)
        from raysect.core.math.random import seed as _rseed
        _rseed(s64)
    except ImportError:
        pass
    ops = case["ops"]
    try:
        if journal:
            journal(-1)
        ctx = machine.start(case["config"], env)
        for j, op in enumerate(ops):
            if journal:
                journal(j)
            env.step = j
            out = machine.step(ctx, op, env)
            env.digest.add(j, op["op"], out)
            env.op_count(op["op"], (out or "ok").split(":")[0])
        env.step = len(ops)
        if journal:
            journal(len(ops))
        machine.finish(ctx, env)
        env.digest.add("finish")
    except Violation as v:
        return {
            "status": "violation", "class": v.klass(), "step": env.step, "detail": v.detail,
            "digest": env.digest.hexdigest(), "stats": env.stats.to_json(),
        }
    except HarnessError as e:
        return {"status": "harness-error", "step": env.step,
                "detail": "".join(traceback.format_exception(e))}
    except (MemoryError, RecursionError) as e:
        return {"status": "harness-error", "step": env.step,
                "detail": "".join(traceback.format_exception(e))}
    except Exception as e:
        # An exception escaping a machine is a harness bug -- unless it was raised *inside* the system under test by a call
        # the machine had no reason to guard (every such call succeeds on the unchanged tree): then the code under test
        # refused or crashed on a supported operation, which is reported as a violation of the property being exercised.
        tb = traceback.extract_tb(e.__traceback__)
        inner = tb[-1].filename if tb else ""
        if "cherab/" in inner.replace("\\", "/") and "/verif/" not in inner:
            opk = case["ops"][env.step]["op"] if 0 <= env.step < len(ops) else ("start" if env.step < 0 else "finish")
            return {"status": "violation", "class": ["unexpected-exception", opk], "step": env.step,
                    "detail": "%s raised inside the library during a supported operation: %s" % (
                        type(e).__name__, "".join(traceback.format_exception(e))[-1500:]),
                    "digest": env.digest.hexdigest(), "stats": env.stats.to_json()}
        return {"status": "harness-error", "step": env.step,
                "detail": "".join(traceback.format_exception(e))}
    return {
        "status": "pass", "digest": env.digest.hexdigest(), "events": env.digest.events,
        "steps": len(ops), "stats": env.stats.to_json(), "interleaving": env.interleaving(),
        "nontrivial": bool(env.nontrivial), "states": sorted(env.states),
        "transitions": sorted(env.transitions),
    }
