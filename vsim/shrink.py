"""ddmin over the operation list + per-op / config simplification.

Every candidate is executed in a forked child, so crashes shrink like any other
violation.  A candidate is accepted iff it yields a violation of the *same class*.
"""

import copy

from .supervisor import run_forked


def _same(res, klass):
    return res.get("status") == "violation" and res.get("class") == klass


def shrink(machine, case, klass, budget=400, log=None):
    """Return (minimised case, result of minimised case, candidates tried)."""
    tried = 0
    best = copy.deepcopy(case)
    best_res = None

    def test(cand):
        nonlocal tried
        tried += 1
        return run_forked(machine, cand)

    # 0. truncate after the failing step
    res = test(best)
    if not _same(res, klass):
        return case, None, tried      # not reproducible -> caller treats as harness error
    best_res = res
    step = res.get("step", len(best["ops"]))
    if 0 <= step < len(best["ops"]) - 1:
        cand = copy.deepcopy(best)
        cand["ops"] = best["ops"][: step + 1]
        r = test(cand)
        if _same(r, klass):
            best, best_res = cand, r

    # 1. ddmin on ops
    n = 2
    while len(best["ops"]) >= 2 and tried < budget:
        ops = best["ops"]
        size = max(1, len(ops) // n)
        chunks = [(i, min(len(ops), i + size)) for i in range(0, len(ops), size)]
        reduced = False
        for lo, hi in chunks:
            if tried >= budget:
                break
            cand = copy.deepcopy(best)
            cand["ops"] = ops[:lo] + ops[hi:]
            if not cand["ops"] and not getattr(machine, "empty_ops_ok", True):
                continue
            r = test(cand)
            if _same(r, klass):
                best, best_res = cand, r
                n = max(n - 1, 2)
                reduced = True
                break
        if not reduced:
            if size == 1:
                break
            n = min(len(ops), n * 2)

    # 2. one-at-a-time removal (ddmin with chunk size 1 may stop early through budget)
    i = 0
    while i < len(best["ops"]) and tried < budget:
        cand = copy.deepcopy(best)
        del cand["ops"][i]
        r = test(cand)
        if _same(r, klass):
            best, best_res = cand, r
        else:
            i += 1

    # 3. per-op simplification
    changed = True
    while changed and tried < budget:
        changed = False
        for i, op in enumerate(list(best["ops"])):
            for simpler in machine.simplify_op(op):
                if tried >= budget:
                    break
                if simpler == op:
                    continue
                cand = copy.deepcopy(best)
                cand["ops"][i] = simpler
                r = test(cand)
                if _same(r, klass):
                    best, best_res = cand, r
                    changed = True
                    break

    # 4. config simplification
    changed = True
    while changed and tried < budget:
        changed = False
        for simpler in machine.simplify_config(best["config"]):
            if tried >= budget:
                break
            cand = copy.deepcopy(best)
            cand["config"] = simpler
            r = test(cand)
            if _same(r, klass):
                best, best_res = cand, r
                changed = True
                break
    return best, best_res, tried
