"""SimFS: an in-memory file system installed under the *unmodified* repository / parser / installer modules.

Installed by rebinding the names ``open`` and ``os`` (and ``urllib`` in install.py) in the namespaces of
cherab.openadas.repository.*, cherab.openadas.parse.*, cherab.openadas.install.  Nothing reaches the real
disk; every path opened for writing and every directory created is recorded; storage faults are injected
at open, at the n-th write() of a file (json.dump(indent=2) issues one write per token) and at close.
"""

import errno
import io
import os as _real_os
import posixpath
import types


class SimFSFault(OSError):
    pass


class _WFile(io.StringIO):

    def __init__(self, fs, path):
        super().__init__()
        self._fs = fs
        self._path = path
        self._nwrites = 0
        self._closed_once = False

    def write(self, s):
        fs = self._fs
        plan = fs.fault
        if plan is not None and plan["kind"] == "eio-write" and plan.get("armed_path") == self._path:
            if self._nwrites >= plan["n"]:
                fs.fault = None
                fs.fired.append(("eio-write", self._path, self._nwrites))
                # what was written so far stays in the (truncated) file: a torn write
                fs.files[self._path] = self.getvalue()
                fs.torn.add(self._path)
                raise SimFSFault(errno.EIO, "simulated I/O error on write", self._path)
        self._nwrites += 1
        fs.write_calls += 1
        return super().write(s)

    def close(self):
        if self._closed_once:
            return
        self._closed_once = True
        fs = self._fs
        if self._path not in fs.torn:
            fs.files[self._path] = self.getvalue()
            fs.touch(self._path)
        plan = fs.fault
        super().close()
        if plan is not None and plan["kind"] == "eio-close" and plan.get("armed_path") == self._path:
            fs.fault = None
            fs.fired.append(("eio-close", self._path, self._nwrites))
            fs.torn.add(self._path)      # durability unknown after a failed close: treat as poisoned
            raise SimFSFault(errno.EIO, "simulated I/O error on close", self._path)

    def __exit__(self, *a):
        self.close()
        return False


class SimFS:

    def __init__(self):
        self.files = {}          # normalised absolute path -> str content
        self.dirs = {"/"}
        self.opened_w = []       # every path opened for writing (in order)
        self.removed = []
        self.made_dirs = []
        self.fault = None        # one armed fault plan or None
        self.fired = []
        self.torn = set()
        self.write_calls = 0
        self.reads = 0
        self.download_plan = None    # None | "fail" | "short"
        self.archive = {}            # url path -> content (simulated OPEN-ADAS server)
        self.downloads = []
        self.clock = 0           # logical time: one tick per completed write / rename / remove
        self.meta = {}           # path -> (mtime, inode)
        self.next_ino = 1000
        self.os = _FakeOS(self)
        self.urllib = _FakeUrllib(self)

    # ---- helpers -----------------------------------------------------------------
    def norm(self, path):
        p = _real_os.fspath(path)
        if not p.startswith("/"):
            p = "/simcwd/" + p
        return posixpath.normpath(p)

    def touch(self, p):
        self.clock += 1
        ino = self.meta.get(p, (0, None))[1]
        if ino is None:
            self.next_ino += 1
            ino = self.next_ino
        self.meta[p] = (self.clock, ino)

    def add_file(self, path, content):
        p = self.norm(path)
        self.files[p] = content
        self.touch(p)
        d = posixpath.dirname(p)
        while d not in self.dirs:
            self.dirs.add(d)
            d = posixpath.dirname(d)

    # ---- the builtin the modules see -----------------------------------------------
    def open(self, path, mode="r", *a, **kw):
        p = self.norm(path)
        if "r" in mode and "+" not in mode:
            self.reads += 1
            if p not in self.files:
                raise FileNotFoundError(errno.ENOENT, "No such file or directory", path)
            f = io.StringIO(self.files[p])
            return f
        if "w" in mode:
            d = posixpath.dirname(p)
            if d not in self.dirs:
                raise FileNotFoundError(errno.ENOENT, "No such file or directory", path)
            plan = self.fault
            if plan is not None and "armed_path" not in plan:
                if plan["kind"] == "enospc-open":
                    self.fault = None
                    self.fired.append(("enospc-open", p, 0))
                    raise SimFSFault(errno.ENOSPC, "simulated: no space left on device", path)
                plan["armed_path"] = p
            self.opened_w.append(p)
            self.torn.discard(p)
            self.files[p] = ""           # O_TRUNC
            self.touch(p)
            return _WFile(self, p)
        raise ValueError("SimFS: unsupported mode %r" % mode)

    # ---- fault arming --------------------------------------------------------------
    def arm(self, kind, n=0):
        self.fault = {"kind": kind, "n": n}


class _FakePath:

    def __init__(self, fs):
        self._fs = fs

    def __getattr__(self, name):
        return getattr(posixpath, name)

    def isdir(self, p):
        return self._fs.norm(p) in self._fs.dirs

    def isfile(self, p):
        return self._fs.norm(p) in self._fs.files

    def exists(self, p):
        q = self._fs.norm(p)
        return q in self._fs.files or q in self._fs.dirs

    def getsize(self, p):
        return self._fs.os.stat(p).st_size

    def getmtime(self, p):
        return self._fs.os.stat(p).st_mtime


class _FakeOS:

    def __init__(self, fs):
        self._fs = fs
        self.path = _FakePath(fs)

    def __getattr__(self, name):
        if name in ("rmdir", "mkdir", "open", "scandir", "walk", "utime", "chmod", "fsync"):
            raise AttributeError("SimFS: os.%s is not simulated (the repository code did not use it when the seam was built)" % name)
        return getattr(_real_os, name)

    def stat(self, p):
        fs = self._fs
        q = fs.norm(p)
        if q in fs.files:
            mt, ino = fs.meta.get(q, (0, 1))
            n = len(fs.files[q].encode())
            ns = {"st_atime_ns": int(mt) * 10 ** 9, "st_mtime_ns": int(mt) * 10 ** 9, "st_ctime_ns": int(mt) * 10 ** 9}
            return _real_os.stat_result((0o100644, ino, 1, 1, 0, 0, n, float(mt), float(mt), float(mt)), ns)
        if q in fs.dirs:
            return _real_os.stat_result((0o040755, 2, 1, 2, 0, 0, 0, 0.0, 0.0, 0.0), {"st_atime_ns": 0, "st_mtime_ns": 0, "st_ctime_ns": 0})
        raise FileNotFoundError(errno.ENOENT, "No such file or directory", p)

    def remove(self, p):
        fs = self._fs
        q = fs.norm(p)
        if q not in fs.files:
            raise FileNotFoundError(errno.ENOENT, "No such file or directory", p)
        del fs.files[q]
        fs.meta.pop(q, None)
        fs.clock += 1
        fs.removed.append(q)

    unlink = remove

    def replace(self, src, dst):
        fs = self._fs
        a, b = fs.norm(src), fs.norm(dst)
        if a not in fs.files:
            raise FileNotFoundError(errno.ENOENT, "No such file or directory", src)
        if posixpath.dirname(b) not in fs.dirs:
            raise FileNotFoundError(errno.ENOENT, "No such file or directory", dst)
        fs.files[b] = fs.files.pop(a)
        fs.meta[b] = fs.meta.pop(a, (fs.clock, 1))
        fs.touch(b)
        fs.opened_w.append(b)
        fs.torn.discard(b)

    rename = replace

    def listdir(self, d="."):
        fs = self._fs
        q = fs.norm(d)
        if q not in fs.dirs:
            raise FileNotFoundError(errno.ENOENT, "No such file or directory", d)
        out = set()
        for p in list(fs.files) + list(fs.dirs):
            if p != q and posixpath.dirname(p) == q:
                out.add(posixpath.basename(p))
        return sorted(out)

    def makedirs(self, d, mode=0o777, exist_ok=False):
        fs = self._fs
        p = fs.norm(d)
        if p in fs.dirs:
            if not exist_ok:
                raise FileExistsError(errno.EEXIST, "File exists", d)
            return
        if p in fs.files:
            raise FileExistsError(errno.EEXIST, "File exists", d)
        q = p
        new = []
        while q not in fs.dirs:
            new.append(q)
            q = posixpath.dirname(q)
        for q in reversed(new):
            fs.dirs.add(q)
            fs.made_dirs.append(q)


class _FakeUrllib:
    """Stands in for the ``urllib`` name in install.py: urllib.parse is real, urllib.request.urlretrieve is simulated."""

    def __init__(self, fs):
        import urllib.parse
        self.parse = urllib.parse
        self.request = types.SimpleNamespace(urlretrieve=self._urlretrieve)
        self._fs = fs

    def _urlretrieve(self, url, target):
        fs = self._fs
        fs.downloads.append(url)
        key = url.split("/download/", 1)[-1]
        if fs.download_plan == "fail" or key not in fs.archive:
            fs.fired.append(("download-fail", url, 0))
            fs.download_plan = None
            import urllib.error
            raise urllib.error.URLError("simulated network failure")
        content = fs.archive[key]
        if fs.download_plan == "short":
            fs.fired.append(("download-short", url, 0))
            fs.download_plan = None
            content = content[: len(content) // 2]
        p = fs.norm(target)
        fs.opened_w.append(p)
        fs.files[p] = content
        fs.touch(p)
        return target, None


def install(fs, modules):
    """Rebind open / os / urllib in the given modules; returns an undo list."""
    undo = []
    for m in modules:
        for name, val in (("open", fs.open), ("os", fs.os)):
            undo.append((m, name, m.__dict__.get(name, _MISSING)))
            m.__dict__[name] = val
        if "urllib" in m.__dict__:
            undo.append((m, "urllib", m.__dict__["urllib"]))
            m.__dict__["urllib"] = fs.urllib
    return undo


_MISSING = object()


def uninstall(undo):
    for m, name, old in reversed(undo):
        if old is _MISSING:
            m.__dict__.pop(name, None)
        else:
            m.__dict__[name] = old
