"""Pristine-process twin: "a scene built from scratch" taken literally.

An in-process twin shares every piece of process-global state with the subject (module-level memos, registries keyed by
value, class attributes, shared default objects): a defect that lives there poisons subject and twin alike and the
differential oracle agrees with itself.  A run that enables this seam forks a *server* at its very start, before any
object of the run exists; the server never touches the library.  For every comparison the run sends the value
specification to the server, the server forks a grandchild (an image of the process as it was at run start), the
grandchild builds the twin, observes it, writes the pickled result and exits.  Nothing the subject's history did, and
nothing an earlier twin did, can reach it.

No PRNG, no clock; the reply to a request is a pure function of the request and the code.  A grandchild that dies from a
signal is reported as ("crashed", signal number); an exception of the harness as ("harness", text).
"""

import os
import pickle
import struct
import traceback


def _write_all(fd, data):
    off = 0
    while off < len(data):
        off += os.write(fd, data[off:off + 65536])


def _read_exact(fd, n):
    chunks = []
    while n:
        b = os.read(fd, min(n, 1 << 16))
        if not b:
            raise EOFError
        chunks.append(b)
        n -= len(b)
    return b"".join(chunks)


def _send(fd, obj):
    data = pickle.dumps(obj, protocol=4)
    _write_all(fd, struct.pack("<Q", len(data)) + data)


def _recv(fd):
    (n,) = struct.unpack("<Q", _read_exact(fd, 8))
    return pickle.loads(_read_exact(fd, n))


class PristineServer:
    def __init__(self, job):
        """job(request) -> picklable reply; evaluated in a grandchild forked from the state of *now*."""
        req_r, req_w = os.pipe()
        res_r, res_w = os.pipe()
        pid = os.fork()
        if pid == 0:
            try:
                os.close(req_w)
                os.close(res_r)
                self._serve(job, req_r, res_w)
            finally:
                os._exit(0)
        os.close(req_r)
        os.close(res_w)
        self.pid, self._w, self._r = pid, req_w, res_r
        self.calls = 0

    @staticmethod
    def _serve(job, req_r, res_w):
        while True:
            try:
                request = _recv(req_r)
            except EOFError:
                return
            g = os.fork()
            if g == 0:
                try:
                    try:
                        reply = job(request)
                    except BaseException as e:      # noqa: the run decides what it means
                        reply = ("harness", "".join(traceback.format_exception(e))[-2000:])
                    _send(res_w, reply)
                finally:
                    os._exit(0)
            _, status = os.waitpid(g, 0)
            if os.WIFSIGNALED(status):
                _send(res_w, ("crashed", os.WTERMSIG(status)))

    def call(self, request):
        self.calls += 1
        _send(self._w, request)
        return _recv(self._r)

    def close(self):
        for fd in (self._w, self._r):
            try:
                os.close(fd)
            except OSError:
                pass
        try:
            os.waitpid(self.pid, 0)
        except ChildProcessError:
            pass
