"""SimFunction: a pure analytic function behind a call counter and a fault plan.

Families (all with *known* bounds so that oracles need no numerics of their own):

  "multilinear"  f = sum over subsets S of axes of c_S * prod_{i in S} x_i
  "poly"         tensor polynomial, degree <= 3 per axis, coefficients c[i][j][k]
  "sines"        sum_k a_k * sin(w_k . x + phi_k) + offset
"""

import itertools
import math


class SimFault(RuntimeError):
    """Injected one-off environment failure (I/O error in the middle of a lazy fill)."""


class SimInterrupt(BaseException):
    """Injected Ctrl-C-like interruption: not an Exception, so `except Exception` misses it."""


class SimFunction:

    def __init__(self, dim, spec):
        self.dim = dim
        self.spec = spec
        self.family = spec["family"]
        self.xs = float(spec.get("xscale", 1.0))      # f(x) = g(x / xscale): the same function on a stretched coordinate axis
        self.ys = float(spec.get("yscale", 1.0))      # f = yscale * g: the same function in other units (1e-35 m^3/s rates, 1e25 m^-3)
        self.calls = 0
        self.log = None            # list of coordinate tuples when recording
        self.fault_at = {}         # absolute call index -> kind
        self.fired = []
        if self.family == "multilinear":
            self.terms = [(tuple(t["axes"]), float(t["c"])) for t in spec["terms"]]
        elif self.family == "poly":
            self.terms = [(tuple(t["pow"]), float(t["c"])) for t in spec["terms"]]
        elif self.family == "sines":
            self.waves = [(float(w["a"]), tuple(float(v) for v in w["w"]), float(w["phi"])) for w in spec["waves"]]
            self.offset = float(spec.get("offset", 0.0))
        else:
            raise ValueError(self.family)

    # ---- pure value -----------------------------------------------------------
    def value(self, *p):
        if self.ys != 1.0:
            ys, self.ys = self.ys, 1.0
            try:
                return ys * self.value(*p)
            finally:
                self.ys = ys
        if self.xs != 1.0:
            p = tuple(v / self.xs for v in p)
        if self.family == "multilinear":
            s = 0.0
            for axes, c in self.terms:
                t = c
                for a in axes:
                    t *= p[a]
                s += t
            return s
        if self.family == "poly":
            s = 0.0
            for pw, c in self.terms:
                t = c
                for a, e in enumerate(pw):
                    t *= p[a] ** e
                s += t
            return s
        s = self.offset
        for a, w, phi in self.waves:
            ph = phi
            for i in range(self.dim):
                ph += w[i] * p[i]
            s += a * math.sin(ph)
        return s

    # ---- bounds over a box [(lo, hi)] * dim ------------------------------------
    def abs_bound(self, box):
        if self.ys != 1.0:
            ys, self.ys = self.ys, 1.0
            try:
                return ys * self.abs_bound(box)
            finally:
                self.ys = ys
        m = [max(abs(lo), abs(hi)) / self.xs for lo, hi in box]
        if self.family == "multilinear":
            return sum(abs(c) * math.prod(m[a] for a in axes) for axes, c in self.terms)
        if self.family == "poly":
            return sum(abs(c) * math.prod(m[a] ** e for a, e in enumerate(pw)) for pw, c in self.terms)
        return abs(self.offset) + sum(abs(a) for a, _w, _p in self.waves)

    def second_derivative_bound(self, box, i, j):
        """max over the box of |d2 f / dx_i dx_j| (an upper bound, cheap and crude)."""
        if self.ys != 1.0:
            ys, self.ys = self.ys, 1.0
            try:
                return ys * self.second_derivative_bound(box, i, j)
            finally:
                self.ys = ys
        if self.xs != 1.0:
            xs, self.xs = self.xs, 1.0
            try:
                return self.second_derivative_bound([(lo / xs, hi / xs) for lo, hi in box], i, j) / (xs * xs)
            finally:
                self.xs = xs
        m = [max(abs(lo), abs(hi)) for lo, hi in box]
        if self.family == "multilinear":
            if i == j:
                return 0.0
            s = 0.0
            for axes, c in self.terms:
                if i in axes and j in axes:
                    s += abs(c) * math.prod(m[a] for a in axes if a not in (i, j))
            return s
        if self.family == "poly":
            s = 0.0
            for pw, c in self.terms:
                pw = list(pw)
                f = abs(c)
                for ax in (i, j):
                    if pw[ax] == 0:
                        f = 0.0
                        break
                    f *= pw[ax]
                    pw[ax] -= 1
                if f:
                    s += f * math.prod(m[a] ** e for a, e in enumerate(pw))
            return s
        return sum(abs(a) * abs(w[i]) * abs(w[j]) for a, w, _p in self.waves)

    # ---- the callable the system under test sees --------------------------------
    def __call__(self, *p):
        k = self.calls
        self.calls += 1
        if self.log is not None:
            self.log.append(tuple(float(v) for v in p))
        kind = self.fault_at.pop(k, None)
        if kind is not None:
            self.fired.append((k, kind))
            if kind == "interrupt":
                raise SimInterrupt("injected interruption at call %d" % k)
            raise SimFault("injected failure at call %d" % k)
        return self.value(*p)


def random_spec(rng, dim, family):
    """Generate a function spec; magnitudes O(1..10), length scales O(0.3..3)."""
    if family == "multilinear" and rng.random() < 0.08:
        # a constant (fill-value) profile; -1, 0 and 1 are the values error-return conventions like to use
        return {"family": family, "terms": [{"axes": [], "c": rng.choice([-1.0, -1.0, 0.0, 1.0, 2.5])}]}
    if family == "multilinear":
        terms = []
        for r in range(dim + 1):
            for axes in itertools.combinations(range(dim), r):
                if r == 0 or rng.random() < 0.8:
                    terms.append({"axes": list(axes), "c": round(rng.uniform(-3, 3), 3)})
        return {"family": family, "terms": terms}
    if family == "poly":
        terms = []
        for pw in itertools.product(range(4), repeat=dim):
            if sum(pw) == 0 or rng.random() < (0.6 if dim < 3 else 0.15):
                terms.append({"pow": list(pw), "c": round(rng.uniform(-2, 2) / (1 + sum(pw)) ** 2, 4)})
        return {"family": family, "terms": terms}
    waves = []
    for _ in range(rng.randint(1, 3)):
        waves.append({"a": round(rng.uniform(0.2, 3), 3),
                      "w": [round(rng.uniform(-3, 3), 3) for _ in range(dim)],
                      "phi": round(rng.uniform(0, 6.283), 3)})
    return {"family": "sines", "waves": waves, "offset": round(rng.uniform(-5, 5), 3)}
