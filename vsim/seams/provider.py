"""SimAtomicData: an analytic atomic-data provider with a call counter and a fault plan.

Every rate is strictly positive and depends on *all* of its arguments, so that any change of placement, energy,
composition or provider moves at least one observation far above the comparison tolerance.  Magnitudes are a pure
function of (provider parameter, accessor name, key) through crc32 — never of Python's salted hash().
"""

import math
import zlib

from cherab.core.atomic import (AtomicData, ImpactExcitationPEC, RecombinationPEC, ThermalCXPEC, BeamCXPEC, BeamStoppingRate,
                                BeamPopulationRate, BeamEmissionPEC, LineRadiationPower, ContinuumPower, CXRadiationPower)
from cherab.core.atomic.gaunt import FreeFreeGauntFactor

from .simfunc import SimFault, SimInterrupt


def _u(*key):
    """Deterministic number in [0.5, 1.5) from a key."""
    return 0.5 + (zlib.crc32(repr(key).encode()) % 100000) / 100000.0


def _pw(x, ref, p):
    if not (x > 0.0) or x != x or x == math.inf:
        return 0.5
    return (x / ref) ** p


class _PEC2(object):
    pass


class SimExcPEC(ImpactExcitationPEC):
    def __init__(self, c):
        self.c = c

    def evaluate(self, density, temperature):
        return self.c * _pw(density, 1e19, 0.11) * _pw(temperature, 100.0, 0.23)


class SimRecPEC(RecombinationPEC):
    def __init__(self, c):
        self.c = c

    def evaluate(self, density, temperature):
        return self.c * _pw(density, 1e19, 0.07) * _pw(temperature, 100.0, -0.31)


class SimTCXPEC(ThermalCXPEC):
    def __init__(self, c):
        self.c = c

    def evaluate(self, electron_density, electron_temperature, donor_temperature):
        return self.c * _pw(electron_density, 1e19, 0.05) * _pw(electron_temperature, 100.0, 0.13) * _pw(donor_temperature, 50.0, 0.17)


class SimBeamCXPEC(BeamCXPEC):
    def __init__(self, metastable, c):
        super().__init__(metastable)
        self.c = c

    def evaluate(self, energy, temperature, density, z_effective, b_field):
        return (self.c * _pw(energy, 5e4, 0.21) * _pw(temperature, 100.0, 0.09) * _pw(density, 1e19, 0.06)
                * _pw(z_effective, 1.5, 0.12) * _pw(b_field, 2.0, 0.08))


class _Beam3(object):
    def evaluate(self, energy, density, temperature):
        return self.c * _pw(energy, 5e4, self.p[0]) * _pw(density, 1e19, self.p[1]) * _pw(temperature, 100.0, self.p[2])


class SimStopping(BeamStoppingRate):
    def __init__(self, c):
        self.c = c

    def evaluate(self, energy, density, temperature):
        return self.c * _pw(energy, 5e4, -0.25) * _pw(density, 1e19, 0.06) * _pw(temperature, 100.0, 0.04)


class SimPopulation(BeamPopulationRate):
    def __init__(self, c):
        self.c = c

    def evaluate(self, energy, density, temperature):
        return self.c * _pw(energy, 5e4, 0.15) * _pw(density, 1e19, 0.10) * _pw(temperature, 100.0, 0.05)


class SimBeamEmission(BeamEmissionPEC):
    def __init__(self, c):
        self.c = c

    def evaluate(self, energy, density, temperature):
        return self.c * _pw(energy, 5e4, 0.18) * _pw(density, 1e19, -0.08) * _pw(temperature, 100.0, 0.07)


class SimGaunt(FreeFreeGauntFactor):
    """Provider-dependent free-free Gaunt factor (two providers of a run must not share it: a model that keeps the
    first provider's factor after `atomic_data` was replaced would otherwise be invisible)."""

    def __init__(self, c):
        self.c = c

    def evaluate(self, z, temperature, wavelength):
        return self.c * _pw(z, 2.0, 0.1) * _pw(temperature, 100.0, 0.15) * _pw(wavelength, 500.0, 0.2)


def _power_cls(base):
    class SimPower(base):
        def __init__(self, element, charge, c):
            super().__init__(element, charge)
            self.c = c

        def evaluate(self, electron_density, electron_temperature):
            return self.c * _pw(electron_density, 1e19, 0.04) * _pw(electron_temperature, 100.0, 0.3)
    return SimPower


SimLinePower = _power_cls(LineRadiationPower)
SimContPower = _power_cls(ContinuumPower)
SimCXPower = _power_cls(CXRadiationPower)


class SimAtomicData(AtomicData):
    """
    param       float: scales every rate of this provider (two providers of a run differ in it)
    missing     list of [accessor, key-prefix...] entries: persistent absence -> RuntimeError, every time
    counter     shared mutable list [n]: global provider-call index of the run (call-k faults)
    fault_at    shared dict call index -> "error"|"interrupt" (fires once)
    """

    def __init__(self, pid, param, missing, counter, fault_at, fired):
        super().__init__()
        self.pid = pid
        self.param = param
        self.missing = [tuple(m) for m in missing]
        self.counter = counter
        self.fault_at = fault_at
        self.fired = fired
        self.calls = 0
        self.by_name = {}

    def _enter(self, name, *key):
        self.calls += 1
        self.by_name[name] = self.by_name.get(name, 0) + 1
        k = self.counter[0]
        self.counter[0] += 1
        kind = self.fault_at.pop(k, None)
        if kind is not None:
            self.fired.append((k, kind, name))
            if kind == "interrupt":
                raise SimInterrupt("injected interruption in provider call %d (%s)" % (k, name))
            raise SimFault("injected failure in provider call %d (%s)" % (k, name))
        full = (name,) + key
        for m in self.missing:
            if full[:len(m)] == m:
                self.fired.append((k, "missing", name))
                raise RuntimeError("simulated: no %s data for %r" % (name, key))
        return self.param * _u(name, *key)

    @staticmethod
    def _el(e):
        return e.symbol

    def wavelength(self, ion, charge, transition):
        self._enter("wavelength", self._el(ion), charge, tuple(transition))
        # fixed per line up to a small provider-dependent shift (< 0.4 nm: stays inside the narrow spectral windows,
        # yet a renderer that keeps the wavelength of a replaced provider becomes visible)
        return 420.0 + 260.0 * (_u("wl", self._el(ion), charge, tuple(transition)) - 0.5) + 0.45 * (self.param - 1.0)

    def impact_excitation_pec(self, ion, charge, transition):
        return SimExcPEC(1e-16 * self._enter("impact_excitation_pec", self._el(ion), charge, tuple(transition)))

    def recombination_pec(self, ion, charge, transition):
        return SimRecPEC(1e-17 * self._enter("recombination_pec", self._el(ion), charge, tuple(transition)))

    def thermal_cx_pec(self, donor_ion, donor_charge, receiver_ion, receiver_charge, transition):
        return SimTCXPEC(1e-15 * self._enter("thermal_cx_pec", self._el(donor_ion), donor_charge, self._el(receiver_ion),
                                             receiver_charge, tuple(transition)))

    def beam_cx_pec(self, donor_ion, receiver_ion, receiver_charge, transition):
        c = self._enter("beam_cx_pec", self._el(donor_ion), self._el(receiver_ion), receiver_charge, tuple(transition))
        n = 1 + zlib.crc32(repr((self._el(receiver_ion), receiver_charge, tuple(transition))).encode()) % 3
        return [SimBeamCXPEC(m, 1e-14 * c * (1.0 + 0.37 * (m - 1))) for m in range(1, n + 1)]

    def beam_stopping_rate(self, beam_ion, plasma_ion, charge):
        return SimStopping(1.5e-13 * self._enter("beam_stopping_rate", self._el(beam_ion), self._el(plasma_ion), charge))

    def beam_population_rate(self, beam_ion, metastable, plasma_ion, charge):
        return SimPopulation(0.1 * self._enter("beam_population_rate", self._el(beam_ion), metastable, self._el(plasma_ion), charge))

    def beam_emission_pec(self, beam_ion, plasma_ion, charge, transition):
        return SimBeamEmission(1e-15 * self._enter("beam_emission_pec", self._el(beam_ion), self._el(plasma_ion), charge, tuple(transition)))

    def line_radiated_power_rate(self, element, charge):
        return SimLinePower(element, charge, 1e-32 * self._enter("line_radiated_power_rate", self._el(element), charge))

    def continuum_radiated_power_rate(self, element, charge):
        return SimContPower(element, charge, 1e-33 * self._enter("continuum_radiated_power_rate", self._el(element), charge))

    def cx_radiated_power_rate(self, element, charge):
        return SimCXPower(element, charge, 1e-32 * self._enter("cx_radiated_power_rate", self._el(element), charge))

    def free_free_gaunt_factor(self):
        return SimGaunt(1.1 * self._enter("free_free_gaunt_factor"))

    # ---- line-shape data (round 8): provider-dependent, so that a line shape which keeps the data of a replaced
    # provider is visible; looked up by the line-shape constructors, i.e. inside a model's cache fill
    def zeeman_triplet_parameters(self, line):
        c = self._enter("zeeman_triplet_parameters", self._el(line.element), line.charge, tuple(line.transition))
        return (0.03 + 0.05 * c, 0.2 + 0.5 * c, 0.1 + 0.3 * c)

    def stark_model_coefficients(self, line):
        c = self._enter("stark_model_coefficients", self._el(line.element), line.charge, tuple(line.transition))
        return (2e-3 + 1e-3 * c, 0.6 + 0.1 * c, 0.02 + 0.01 * c)

    def zeeman_structure(self, line, b_field=None):
        from cherab.core.atomic.zeeman import ZeemanStructure
        from raysect.core.math.function.float import Arg1D, Constant1D
        key = (self._el(line.element), line.charge, tuple(line.transition))
        c = self._enter("zeeman_structure", *key)
        w0 = 420.0 + 260.0 * (_u("wl", *key) - 0.5) + 0.45 * (self.param - 1.0)
        d = 0.02 + 0.03 * c                                   # nm per tesla
        b = Arg1D()
        pi = [(Constant1D(w0), Constant1D(0.5)), (b * (0.3 * d) + w0, b * 0.05 + 0.25), (b * (-0.3 * d) + w0, Constant1D(0.25))]
        sp = [(b * d + w0, Constant1D(0.7)), (b * (1.4 * d) + w0, b * 0.1 + 0.3)]
        sm = [(b * (-d) + w0, Constant1D(0.7)), (b * (-1.4 * d) + w0, b * 0.1 + 0.3)]
        return ZeemanStructure(pi, sp, sm)
