"""Self-tests of the simulator itself (DESIGN 2.8).

  python -m vsim.selftest determinism [ids…] [--n 200]

Runs the same seeds in several fresh interpreters — 1, 4 and 16 workers, and under a different
PYTHONHASHSEED — and demands identical per-run event-log digests.  Exit 0 = identical, 2 = divergence.
"""

import argparse
import json
import os
import subprocess
import sys
import tempfile

HERE = os.path.dirname(os.path.dirname(os.path.abspath(__file__)))
PY = "/venv/bin/python"


def run_variant(pid, n, workers, hashseed, seed, tier):
    fd, path = tempfile.mkstemp(prefix="vsim-dig-", suffix=".json", dir="/var/tmp")
    os.close(fd)
    env = dict(os.environ)
    env.pop("VSIM_REEXEC", None)
    env["PYTHONHASHSEED"] = str(hashseed)
    env["VERIF_SEED"] = str(seed)
    env["PYTHONPATH"] = HERE
    try:
        p = subprocess.run([PY, "-m", "vsim.check", pid, "--tier", tier, "--runs", str(n), "--workers", str(workers),
                            "--no-build", "--no-evidence", "--dump-digests", path, "--max-classes", "0"],
                           cwd=HERE, env=env, stdout=subprocess.PIPE, stderr=subprocess.STDOUT, text=True)
        try:
            with open(path) as f:
                data = json.load(f)
        except Exception:
            print("SELFTEST: check %s (workers=%d, PYTHONHASHSEED=%s) produced no digests; exit %d; output:\n%s" % (
                pid, workers, hashseed, p.returncode, p.stdout[-3000:]))
            data = {"digests": [], "violations": [], "harness": -1, "failed": True}
        return data, p.stdout
    finally:
        try:
            os.unlink(path)
        except OSError:
            pass


def determinism(pids, n, seed, tier="quick"):
    ok = True
    for pid in pids:
        variants = [(1, 0), (16, 0), (4, 12345), (16, 987654321)]
        results = []
        for w, hs in variants:
            data, out = run_variant(pid, n, w, hs, seed, tier)
            results.append(data)
        base = results[0]
        if any(r.get("failed") for r in results) or not base["digests"]:
            ok = False
        for (w, hs), r in zip(variants[1:], results[1:]):
            if r != base:
                ok = False
                nd = sum(1 for a, b in zip(base["digests"], r["digests"]) if a != b)
                print("DETERMINISM-FAIL %s: workers=%d hashseed=%d differs from workers=1 hashseed=0 "
                      "(%d of %d digests differ; violations %s vs %s)" % (
                          pid, w, hs, nd, len(base["digests"]), base["violations"][:3], r["violations"][:3]))
        print("determinism %s: %d runs x %d variants, %d digests, %d violations, harness=%d -> %s" % (
            pid, n, len(variants), len(base["digests"]), len(base["violations"]), base["harness"],
            "identical" if ok else "DIVERGED"))
    return ok


def main():
    ap = argparse.ArgumentParser()
    ap.add_argument("what", choices=["determinism"])
    ap.add_argument("pids", nargs="*")
    ap.add_argument("--n", type=int, default=200)
    ap.add_argument("--seed", type=int, default=int(os.environ.get("VERIF_SEED", "0")))
    ap.add_argument("--tier", default="quick")
    a = ap.parse_args()
    from vsim.registry import MACHINES
    pids = a.pids or sorted(MACHINES)
    ok = determinism(pids, a.n, a.seed, a.tier)
    return 0 if ok else 2


if __name__ == "__main__":
    sys.exit(main())
