"""Core of the deterministic simulator: seeds, cases, digests, violations.

One integer decides a run.  A *case* is plain JSON:

    {"property": "C14", "seed": 123, "config": {...}, "ops": [{...}, ...]}

and executing a case never consults a PRNG or a clock: every random decision was taken
when the case was generated (``Machine.generate``), so a case file *is* a replay file.
"""

import hashlib
import json
import math
import random
import struct

MASK64 = (1 << 64) - 1


def splitmix64(x):
    x = (x + 0x9E3779B97F4A7C15) & MASK64
    z = x
    z = ((z ^ (z >> 30)) * 0xBF58476D1CE4E5B9) & MASK64
    z = ((z ^ (z >> 27)) * 0x94D049BB133111EB) & MASK64
    return z ^ (z >> 31)


def run_seed(batch_seed, property_id, index):
    """seed_i = splitmix64 chain over (VERIF_SEED, property id, run index)."""
    h = splitmix64(batch_seed & MASK64)
    for ch in property_id.encode():
        h = splitmix64(h ^ ch)
    h = splitmix64(h ^ (index & MASK64))
    return h


def rng_for(seed):
    return random.Random(seed)


class Violation(Exception):
    """Raised by a machine when an oracle clause fails.

    ``clause``  short stable identifier of the oracle clause (part of the violation class)
    ``channel`` observation channel / attribute concerned (part of the class)
    ``detail``  free text with the numbers (not part of the class)
    """

    def __init__(self, clause, channel, detail=""):
        super().__init__("%s/%s: %s" % (clause, channel, detail))
        self.clause = clause
        self.channel = channel
        self.detail = detail

    def klass(self):
        return [self.clause, self.channel]


class HarnessError(Exception):
    """The harness (not the system under test) is wrong.  Never a VIOLATION."""


def fhex(x):
    """Canonical text of a float for digests."""
    if isinstance(x, float):
        if x != x:
            return "nan"
        return x.hex()
    return repr(x)


class Digest:
    """SHA-256 over the event log of a run.  Logging never draws randomness."""

    def __init__(self):
        self._h = hashlib.sha256()
        self.events = 0

    def add(self, *parts):
        self.events += 1
        for p in parts:
            if isinstance(p, float):
                s = fhex(p)
            elif isinstance(p, (list, tuple)):
                s = "[" + ",".join(fhex(float(v)) if isinstance(v, float) else str(v) for v in p) + "]"
            else:
                s = str(p)
            self._h.update(s.encode())
            self._h.update(b"\x1f")
        self._h.update(b"\x1e")

    def add_array(self, a):
        import numpy as np
        a = np.ascontiguousarray(a, dtype=np.float64)
        self._h.update(a.tobytes())
        self._h.update(b"\x1e")
        self.events += 1

    def hexdigest(self):
        return self._h.hexdigest()


class Stats:
    """Commutative counters collected by a run and merged by the supervisor."""

    def __init__(self):
        self.counts = {}     # name -> int
        self.sets = {}       # name -> set of str

    def inc(self, name, n=1):
        self.counts[name] = self.counts.get(name, 0) + n

    def add(self, setname, item):
        self.sets.setdefault(setname, set()).add(item)

    def to_json(self):
        return {"counts": self.counts, "sets": {k: sorted(v) for k, v in self.sets.items()}}

    def merge_json(self, js):
        for k, v in js.get("counts", {}).items():
            self.counts[k] = self.counts.get(k, 0) + v
        for k, v in js.get("sets", {}).items():
            self.sets.setdefault(k, set()).update(v)


def close(a, b, rtol=1e-9, floor=0.0):
    """Scalar closeness under the tolerance policy of DESIGN 2.5 (NaN equals NaN)."""
    if a != a or b != b:
        return (a != a) and (b != b)
    if a == b:
        return True
    if math.isinf(a) or math.isinf(b):
        return False
    return abs(a - b) <= rtol * max(abs(a), abs(b)) + floor


def arrays_close(a, b, rtol=1e-9, floor_rel=1e-12):
    """Array closeness: rtol plus an absolute floor of floor_rel * max|reference|."""
    import numpy as np
    a = np.asarray(a, dtype=np.float64)
    b = np.asarray(b, dtype=np.float64)
    if a.shape != b.shape:
        return False, "shape %s vs %s" % (a.shape, b.shape)
    if a.size == 0:
        return True, ""
    na = np.isnan(a)
    nb = np.isnan(b)
    if (na != nb).any():
        return False, "NaN pattern differs"
    aa = np.where(na, 0.0, a)
    bb = np.where(nb, 0.0, b)
    ia = np.isinf(aa)
    ib = np.isinf(bb)
    if (ia != ib).any() or (aa[ia] != bb[ib]).any():
        return False, "inf pattern differs"
    aa = np.where(ia, 0.0, aa)
    bb = np.where(ib, 0.0, bb)
    scale = float(max(np.abs(bb).max(), np.abs(aa).max()))
    tol = rtol * np.maximum(np.abs(aa), np.abs(bb)) + floor_rel * scale
    diff = np.abs(aa - bb)
    bad = diff > tol
    if bad.any():
        i = int(np.argmax(diff - tol))
        return False, "max excess at flat index %d: %r vs %r (scale %g)" % (
            i, float(a.flat[i]), float(b.flat[i]), scale)
    return True, ""


def bits_equal(a, b):
    """Bit-for-bit equality of two float64 arrays (−0.0 ≠ 0.0, NaN payloads compared)."""
    import numpy as np
    a = np.ascontiguousarray(a, dtype=np.float64)
    b = np.ascontiguousarray(b, dtype=np.float64)
    if a.shape != b.shape:
        return False
    return a.tobytes() == b.tobytes()


def dump_case(case, path):
    with open(path, "w") as f:
        json.dump(case, f, indent=1, sort_keys=True)
        f.write("\n")


def load_case(path):
    with open(path) as f:
        return json.load(f)


def pack_step(buf, step):
    struct.pack_into("<q", buf, 0, step)


def unpack_step(buf):
    return struct.unpack_from("<q", buf, 0)[0]
