"""Fork-per-run execution, crash capture, batch supervision.

Every run executes in a freshly forked child of a worker process; the child journals the
index of the operation it is about to execute into a shared mmap slot, so that a SIGSEGV
(really observed on cherab-core) is an ordinary outcome: "crash at operation j".
"""

import json
import mmap
import os
import signal
import sys
import time
import traceback
from concurrent.futures import ProcessPoolExecutor
import multiprocessing

from .core import run_seed, rng_for, pack_step, unpack_step, Stats
from .machine import execute_case

_MACHINE = None      # set in workers before forking


def _child_main(machine, case, wfd, jbuf, quiet, timeout):
    try:
        if quiet:
            dn = os.open(os.devnull, os.O_WRONLY)
            os.dup2(dn, 1)
            os.dup2(dn, 2)
        else:
            import faulthandler
            faulthandler.enable()
        # budget in CPU time of this run (independent of how loaded the machine is); a wall-clock alarm ten times as long
        # only catches a run that sleeps or dead-locks without using the CPU
        signal.signal(signal.SIGPROF, signal.SIG_DFL)
        signal.setitimer(signal.ITIMER_PROF, float(timeout))
        signal.signal(signal.SIGALRM, signal.SIG_DFL)
        signal.alarm(int(timeout) * 10)
        res = execute_case(machine, case, journal=lambda j: pack_step(jbuf, j))
        data = json.dumps(res).encode()
    except BaseException as e:   # KeyboardInterrupt-like injected faults must not escape
        data = json.dumps({"status": "harness-error", "step": -2,
                           "detail": "".join(traceback.format_exception(e))}).encode()
    try:
        off = 0
        while off < len(data):
            off += os.write(wfd, data[off:off + 65536])
    finally:
        os._exit(0)


def run_forked(machine, case, quiet=True, timeout=None):
    """Execute one case in a forked child; never raises for child misbehaviour."""
    timeout = timeout or machine.per_run_timeout
    jbuf = mmap.mmap(-1, 16)
    pack_step(jbuf, -3)
    r, w = os.pipe()
    sys.stdout.flush()
    sys.stderr.flush()
    pid = os.fork()
    if pid == 0:
        os.close(r)
        _child_main(machine, case, w, jbuf, quiet, timeout)
        os._exit(0)
    os.close(w)
    chunks = []
    while True:
        b = os.read(r, 1 << 16)
        if not b:
            break
        chunks.append(b)
    os.close(r)
    _, status = os.waitpid(pid, 0)
    step = unpack_step(jbuf)
    jbuf.close()
    if os.WIFSIGNALED(status):
        sig = os.WTERMSIG(status)
        nops = len(case["ops"])
        opkind = case["ops"][step]["op"] if 0 <= step < nops else ("finish" if step >= nops else "start")
        if sig in (signal.SIGPROF, signal.SIGALRM):
            return {"status": "violation", "class": ["hang", opkind], "step": step,
                    "detail": "run exceeded its budget (%ss CPU time, or ten times that in wall time) at op %d" % (timeout, step)}
        if sig == signal.SIGKILL:
            return {"status": "harness-error", "step": step, "detail": "child SIGKILLed (OOM?)"}
        return {"status": "violation", "class": ["crash", opkind], "step": step,
                "detail": "child died from signal %d (%s) at op %d" % (
                    sig, signal.Signals(sig).name, step)}
    data = b"".join(chunks)
    if not data:
        return {"status": "harness-error", "step": step,
                "detail": "child exited with status %d without a report" % status}
    return json.loads(data)


def make_case(machine, batch_seed, index, tier):
    seed = run_seed(batch_seed, machine.pid, index)
    gen = machine.generate(rng_for(seed), tier)
    return {"property": machine.pid, "batch_seed": batch_seed, "index": index, "seed": seed,
            "tier": tier, "config": gen["config"], "ops": gen["ops"]}


def _worker_chunk(args):
    """Executes a contiguous chunk of run indices; returns an aggregate."""
    machine_name, batch_seed, tier, lo, hi, deadline = args
    from .registry import get_machine
    machine = get_machine(machine_name)
    agg = {"runs": 0, "steps": 0, "events": 0, "stats": Stats(), "inter": set(), "inter_nt": set(),
           "states": set(), "transitions": set(), "violations": [], "harness": [],
           "digests": [], "samples": [], "skipped": 0}
    for i in range(lo, hi):
        if deadline and time.time() > deadline:
            agg["skipped"] += hi - i
            break
        case = make_case(machine, batch_seed, i, tier)
        res = run_forked(machine, case)
        agg["runs"] += 1
        st = res.get("status")
        if st == "pass":
            agg["steps"] += res["steps"]
            agg["events"] += res["events"]
            agg["stats"].merge_json(res["stats"])
            agg["inter"].add(res["interleaving"])
            if res["nontrivial"]:
                agg["inter_nt"].add(res["interleaving"])
            agg["states"].update(res["states"])
            agg["transitions"].update(res["transitions"])
            agg["digests"].append((i, res["digest"]))
            if len(agg["samples"]) < 1 and res["nontrivial"]:
                agg["samples"].append({"index": i, "seed": case["seed"], "config": case["config"],
                                       "ops": case["ops"]})
        elif st == "violation":
            agg["steps"] += max(res.get("step", 0), 0)
            if "stats" in res:
                agg["stats"].merge_json(res["stats"])
            agg["violations"].append({"index": i, "case": case, "result": res})
        else:
            agg["harness"].append({"index": i, "seed": case["seed"], "detail": res.get("detail", "")})
    out = dict(agg)
    out["stats"] = agg["stats"].to_json()
    for k in ("inter", "inter_nt", "states", "transitions"):
        out[k] = sorted(agg[k])
    return out


def run_batch(machine_name, batch_seed, tier, nruns, workers=None, deadline_s=None, chunk=None,
              first_index=0, stop_on_violation=False):
    """Run ``nruns`` seeded runs.  Returns the merged aggregate (deterministic in content)."""
    workers = workers or min(16, os.cpu_count() or 1)
    chunk = chunk or max(1, min(64, nruns // (workers * 4) or 1))
    deadline = (time.time() + deadline_s) if deadline_s else None
    tasks = []
    i = first_index
    end = first_index + nruns
    while i < end:
        hi = min(end, i + chunk)
        tasks.append((machine_name, batch_seed, tier, i, hi, deadline))
        i = hi
    merged = {"runs": 0, "steps": 0, "events": 0, "stats": Stats(), "inter": set(), "inter_nt": set(),
              "states": set(), "transitions": set(), "violations": [], "harness": [],
              "digests": [], "samples": [], "skipped": 0}
    ctx = multiprocessing.get_context("fork")
    t0 = time.time()
    ex = ProcessPoolExecutor(max_workers=workers, mp_context=ctx)
    try:
        for out in ex.map(_worker_chunk, tasks):
            merged["runs"] += out["runs"]
            merged["steps"] += out["steps"]
            merged["events"] += out["events"]
            merged["skipped"] += out["skipped"]
            merged["stats"].merge_json(out["stats"])
            for k in ("inter", "inter_nt", "states", "transitions"):
                merged[k].update(out[k])
            merged["violations"].extend(out["violations"])
            merged["harness"].extend(out["harness"])
            merged["digests"].extend(out["digests"])
            if len(merged["samples"]) < 3:
                merged["samples"].extend(out["samples"][: 3 - len(merged["samples"])])
            if stop_on_violation and merged["violations"]:
                merged["stopped_early"] = True
                break
    finally:
        ex.shutdown(wait=True, cancel_futures=True)
    merged["wall_s"] = time.time() - t0
    merged["violations"].sort(key=lambda v: v["index"])
    merged["digests"].sort()
    return merged
