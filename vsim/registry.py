"""Lazy machine registry (machines import cherab, so import on demand)."""

import importlib

MACHINES = {
    "C01": ("vsim.machines.c01_scene", "SceneMachine"),
    "C06": ("vsim.machines.c06_repository", "RepositoryMachine"),
    "C14": ("vsim.machines.c14_caching", "CachingMachine"),
    "C15": ("vsim.machines.c15_groups", "GroupMachine"),
    "C16": ("vsim.machines.c16_instruments", "InstrumentMachine"),
    "C18": ("vsim.machines.c18_laser", "LaserMachine"),
}

_cache = {}


def get_machine(pid):
    if pid not in _cache:
        from .build import point_imports_at
        point_imports_at()
        mod, cls = MACHINES[pid]
        _cache[pid] = getattr(importlib.import_module(mod), cls)()
    return _cache[pid]
